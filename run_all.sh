#!/bin/sh
# runs every registered check's quick (or $1) tier in sequence and prints one line each
cd "$(dirname "$0")"
tier=${1:-quick}
for c in $(python3 -c "import json;print(' '.join(sorted(json.load(open('checks.json')))))"); do
  out=$(./vcheck run $c $tier 2>&1); rc=$?
  echo "$c rc=$rc $(echo "$out" | head -1 | cut -c1-170)"
  echo "$out" | grep -E "^(VIOLATION|KNOWN-FINDING|HARNESS-ERROR)" | head -5
done
