#!/usr/bin/env python3
"""Regenerates MANIFEST.json from checks.json (single source of truth for per-check metadata)."""
import json, os
ROOT = os.path.dirname(os.path.abspath(__file__))
checks = json.load(open(os.path.join(ROOT, "checks.json")))
props = [json.loads(l) for l in open(os.path.join(ROOT, "properties.jsonl"))]
hooks_commits = []
hp = os.path.join(ROOT, "hook_commits.txt")
if os.path.exists(hp):
    hooks_commits = [l.split()[0] for l in open(hp) if l.strip()]
m = {
    "version": 1,
    "setup_cmd": "./setup.sh",
    "hooks": {
        "guard": "verif",
        "enable": "no source hooks: the harness module replaces github.com/bartventer/httpcache => /repo and builds with `go test -c -overlay` (store/fscache's import of package os is rewritten to a pass-through shim at build time; /repo is never written)",
        "baseline_off_cmd": "cd /repo && GOFLAGS=-mod=mod go test -vet=off -count=1 ./...",
        "source_commits": hooks_commits,
        "add_only": True,
    },
    "engines": [
        {"name": "mc", "path": "harness/mc", "serves_properties": sorted(checks), "kind_free_text": "stateless exhaustive choice-tree explorer (DFS with replay, deviation bounding, process sharding) executing the real transport in a testing/synctest bubble"},
    ],
    "checks": [],
    "not_applicable": [],
    "notes": "see DESIGN.md; every check rebuilds the harness against /repo's working tree on each run",
}
for p in props:
    cid = p["id"]
    if cid not in checks:
        m["not_applicable"].append({"property_id": cid, "reason": "check not built yet (work in progress; see DESIGN.md section 4)"})
        continue
    c = checks[cid]
    e = {
        "property_id": cid,
        "quick_cmd": "./vcheck run %s quick" % cid,
        "thorough_cmd": "./vcheck run %s thorough" % cid,
        "evidence_file": "/verif/evidence/%s.json" % cid,
        "replay_cmd_template": "./vcheck replay {path}",
        "engine": c.get("engine", "mc"),
        "level_claimed": {"category": c.get("level", "model_checking"), "text": c.get("level_text", c.get("rule", "")), "design_ref": c.get("design_ref", "DESIGN.md §4 " + cid)},
        "level_note": "; ".join(c.get("assumptions", [])) or "see DESIGN.md §6",
        "technique": c.get("technique", "bounded exhaustive exploration of the implementation (stateless model checking)"),
    }
    m["checks"].append(e)
json.dump(m, open(os.path.join(ROOT, "MANIFEST.json"), "w"), indent=1)
print("MANIFEST.json: %d checks, %d not_applicable" % (len(m["checks"]), len(m["not_applicable"])))
