// Package shimos stands in for package os inside store/fscache (mounted by `go build -overlay`, see
// vcheck). Every file-system operation first reports to Hook — a scheduling point and a fault point for
// the explorer — and then runs the real operation. With Hook == nil it is a pure pass-through.
package shimos

import (
	"io"
	"io/fs"
	"os"
	"time"
)

// Event describes the operation about to run.
type Event struct {
	Op   string // e.g. "Root.OpenFile", "File.Write"
	Path string
	N    int // bytes about to be written / requested
	Flag int
}

// Action is the explorer's decision for the operation.
type Action struct {
	Err   error // fail the operation with this error instead of running it
	Short int   // Write only: write this many bytes first (then fail / die)
	Die   bool  // the calling goroutine ends here (process death as seen by this thread)
}

// Hook, if set, is consulted before every operation.
var Hook func(ev *Event) Action

func point(op, path string, n, flag int) Action {
	h := Hook
	if h == nil {
		return Action{}
	}
	return h(&Event{Op: op, Path: path, N: n, Flag: flag})
}

// DieFunc is called when an action says Die (default: runtime.Goexit via the harness).
var DieFunc = func() { select {} }

// ---------------------------------------------------------------- File

type File struct{ *os.File }

func wrapFile(f *os.File, err error) (*File, error) {
	if f == nil {
		return nil, err
	}
	return &File{f}, err
}

func (f *File) Write(b []byte) (int, error) {
	a := point("File.Write", f.File.Name(), len(b), 0)
	if a.Err != nil || a.Die {
		n := 0
		if a.Short > 0 {
			n, _ = f.File.Write(b[:min(a.Short, len(b))])
		}
		if a.Die {
			DieFunc()
		}
		return n, a.Err
	}
	return f.File.Write(b)
}

func (f *File) WriteString(s string) (int, error) { return f.Write([]byte(s)) }

func (f *File) WriteAt(b []byte, off int64) (int, error) {
	if a := point("File.WriteAt", f.File.Name(), len(b), 0); a.Err != nil || a.Die {
		n := 0
		if a.Short > 0 {
			n, _ = f.File.WriteAt(b[:min(a.Short, len(b))], off)
		}
		if a.Die {
			DieFunc()
		}
		return n, a.Err
	}
	return f.File.WriteAt(b, off)
}

func (f *File) ReadFrom(r io.Reader) (int64, error) {
	// route through Write so that every chunk is a point
	return io.Copy(struct{ io.Writer }{f}, r)
}

func (f *File) Read(b []byte) (int, error) {
	if a := point("File.Read", f.File.Name(), len(b), 0); a.Err != nil || a.Die {
		if a.Die {
			DieFunc()
		}
		return 0, a.Err
	}
	return f.File.Read(b)
}

func (f *File) ReadAt(b []byte, off int64) (int, error) {
	if a := point("File.ReadAt", f.File.Name(), len(b), 0); a.Err != nil || a.Die {
		if a.Die {
			DieFunc()
		}
		return 0, a.Err
	}
	return f.File.ReadAt(b, off)
}

func (f *File) WriteTo(w io.Writer) (int64, error) { return io.Copy(w, struct{ io.Reader }{f}) }

func (f *File) Sync() error {
	if a := point("File.Sync", f.File.Name(), 0, 0); a.Err != nil || a.Die {
		if a.Die {
			DieFunc()
		}
		return a.Err
	}
	return f.File.Sync()
}

func (f *File) Truncate(size int64) error {
	if a := point("File.Truncate", f.File.Name(), int(size), 0); a.Err != nil || a.Die {
		if a.Die {
			DieFunc()
		}
		return a.Err
	}
	return f.File.Truncate(size)
}

func (f *File) Close() error {
	if f == nil {
		return os.ErrInvalid
	}
	if a := point("File.Close", f.File.Name(), 0, 0); a.Err != nil || a.Die {
		_ = f.File.Close() // the descriptor goes away in any case
		if a.Die {
			DieFunc()
		}
		return a.Err
	}
	return f.File.Close()
}

// ---------------------------------------------------------------- Root

type Root struct{ *os.Root }

func wrapRoot(r *os.Root, err error) (*Root, error) {
	if r == nil {
		return nil, err
	}
	return &Root{r}, err
}

func OpenRoot(name string) (*Root, error) {
	if a := point("OpenRoot", name, 0, 0); a.Err != nil {
		return nil, a.Err
	}
	return wrapRoot(os.OpenRoot(name))
}

func (r *Root) rel(name string) string { return r.Root.Name() + "/" + name }

func (r *Root) gate(op, name string, flag int) error {
	a := point(op, r.rel(name), 0, flag)
	if a.Die {
		DieFunc()
	}
	return a.Err
}

func (r *Root) Create(name string) (*File, error) {
	if err := r.gate("Root.Create", name, os.O_RDWR|os.O_CREATE|os.O_TRUNC); err != nil {
		return nil, err
	}
	return wrapFile(r.Root.Create(name))
}

func (r *Root) Open(name string) (*File, error) {
	if err := r.gate("Root.Open", name, os.O_RDONLY); err != nil {
		return nil, err
	}
	return wrapFile(r.Root.Open(name))
}

func (r *Root) OpenFile(name string, flag int, perm os.FileMode) (*File, error) {
	if err := r.gate("Root.OpenFile", name, flag); err != nil {
		return nil, err
	}
	return wrapFile(r.Root.OpenFile(name, flag, perm))
}

func (r *Root) OpenRoot(name string) (*Root, error) {
	if err := r.gate("Root.OpenRoot", name, 0); err != nil {
		return nil, err
	}
	return wrapRoot(r.Root.OpenRoot(name))
}

func (r *Root) Mkdir(name string, perm os.FileMode) error {
	if err := r.gate("Root.Mkdir", name, 0); err != nil {
		return err
	}
	return r.Root.Mkdir(name, perm)
}

func (r *Root) MkdirAll(name string, perm os.FileMode) error {
	if err := r.gate("Root.MkdirAll", name, 0); err != nil {
		return err
	}
	return r.Root.MkdirAll(name, perm)
}

func (r *Root) Remove(name string) error {
	if err := r.gate("Root.Remove", name, 0); err != nil {
		return err
	}
	return r.Root.Remove(name)
}

func (r *Root) RemoveAll(name string) error {
	if err := r.gate("Root.RemoveAll", name, 0); err != nil {
		return err
	}
	return r.Root.RemoveAll(name)
}

func (r *Root) Rename(oldname, newname string) error {
	if err := r.gate("Root.Rename", oldname+" -> "+newname, 0); err != nil {
		return err
	}
	return r.Root.Rename(oldname, newname)
}

func (r *Root) Link(oldname, newname string) error {
	if err := r.gate("Root.Link", oldname+" -> "+newname, 0); err != nil {
		return err
	}
	return r.Root.Link(oldname, newname)
}

func (r *Root) Chtimes(name string, atime, mtime time.Time) error {
	if err := r.gate("Root.Chtimes", name, 0); err != nil {
		return err
	}
	return r.Root.Chtimes(name, atime, mtime)
}

func (r *Root) WriteFile(name string, data []byte, perm os.FileMode) error {
	f, err := r.OpenFile(name, os.O_WRONLY|os.O_CREATE|os.O_TRUNC, perm)
	if err != nil {
		return err
	}
	_, err = f.Write(data)
	if err1 := f.Close(); err1 != nil && err == nil {
		err = err1
	}
	return err
}

func (r *Root) ReadFile(name string) ([]byte, error) {
	f, err := r.Open(name)
	if err != nil {
		return nil, err
	}
	defer f.Close()
	return io.ReadAll(f)
}

func (r *Root) Stat(name string) (fs.FileInfo, error) {
	if err := r.gate("Root.Stat", name, 0); err != nil {
		return nil, err
	}
	return r.Root.Stat(name)
}

// ---------------------------------------------------------------- package-level functions

func gate(op, name string, flag int) error {
	a := point(op, name, 0, flag)
	if a.Die {
		DieFunc()
	}
	return a.Err
}

func Create(name string) (*File, error) {
	if err := gate("Create", name, os.O_RDWR|os.O_CREATE|os.O_TRUNC); err != nil {
		return nil, err
	}
	return wrapFile(os.Create(name))
}

func Open(name string) (*File, error) {
	if err := gate("Open", name, os.O_RDONLY); err != nil {
		return nil, err
	}
	return wrapFile(os.Open(name))
}

func OpenFile(name string, flag int, perm os.FileMode) (*File, error) {
	if err := gate("OpenFile", name, flag); err != nil {
		return nil, err
	}
	return wrapFile(os.OpenFile(name, flag, perm))
}

func CreateTemp(dir, pattern string) (*File, error) {
	if err := gate("CreateTemp", dir+"/"+pattern, 0); err != nil {
		return nil, err
	}
	return wrapFile(os.CreateTemp(dir, pattern))
}

func NewFile(fd uintptr, name string) *File {
	f := os.NewFile(fd, name)
	if f == nil {
		return nil
	}
	return &File{f}
}

func MkdirAll(path string, perm os.FileMode) error {
	if err := gate("MkdirAll", path, 0); err != nil {
		return err
	}
	return os.MkdirAll(path, perm)
}

func Mkdir(path string, perm os.FileMode) error {
	if err := gate("Mkdir", path, 0); err != nil {
		return err
	}
	return os.Mkdir(path, perm)
}

func Remove(name string) error {
	if err := gate("Remove", name, 0); err != nil {
		return err
	}
	return os.Remove(name)
}

func RemoveAll(name string) error {
	if err := gate("RemoveAll", name, 0); err != nil {
		return err
	}
	return os.RemoveAll(name)
}

func Rename(oldpath, newpath string) error {
	if err := gate("Rename", oldpath+" -> "+newpath, 0); err != nil {
		return err
	}
	return os.Rename(oldpath, newpath)
}

func Link(oldname, newname string) error {
	if err := gate("Link", oldname+" -> "+newname, 0); err != nil {
		return err
	}
	return os.Link(oldname, newname)
}

func Truncate(name string, size int64) error {
	if err := gate("Truncate", name, 0); err != nil {
		return err
	}
	return os.Truncate(name, size)
}

func Chtimes(name string, atime, mtime time.Time) error {
	if err := gate("Chtimes", name, 0); err != nil {
		return err
	}
	return os.Chtimes(name, atime, mtime)
}

func WriteFile(name string, data []byte, perm os.FileMode) error {
	f, err := OpenFile(name, os.O_WRONLY|os.O_CREATE|os.O_TRUNC, perm)
	if err != nil {
		return err
	}
	_, err = f.Write(data)
	if err1 := f.Close(); err1 != nil && err == nil {
		err = err1
	}
	return err
}

func ReadFile(name string) ([]byte, error) {
	f, err := Open(name)
	if err != nil {
		return nil, err
	}
	defer f.Close()
	return io.ReadAll(f)
}

// Stdin, Stdout, Stderr keep their real type's behaviour but the shim's File type.
var (
	Stdin  = &File{os.Stdin}
	Stdout = &File{os.Stdout}
	Stderr = &File{os.Stderr}
)
