// Package mc is the exhaustive explorer used by every check.
//
// A check is a function run(x *X) that asks x.Choose(label, n) for every
// decision. Explore enumerates the complete choice tree depth-first (stateless
// DFS with replay: every leaf is one fresh execution of run). Labels may be
// deviation-bounded (ChooseDev): pick 0 is the default answer, any other pick
// is one deviation, and an execution never makes more than Bound deviations.
// Shards partition the tree by the picks of the first ShardDepth choice
// points; a foreign subtree is abandoned as soon as it is identified.
package mc

import (
	"encoding/binary"
	"encoding/json"
	"fmt"
	"hash/fnv"
	"os"
	"runtime/debug"
	"sort"
	"strconv"
	"strings"
	"testing"
	"testing/synctest"
	"time"
)

// Pt is one choice point of an execution.
type Pt struct {
	Label string `json:"label"`
	N     int    `json:"n"`
	Pick  int    `json:"pick"`
	Desc  string `json:"desc,omitempty"`
	Dev   bool   `json:"dev,omitempty"`
}

// Violation is a property violation found in one execution.
type Violation struct {
	Property  string   `json:"property"`
	Signature string   `json:"signature"`
	Message   string   `json:"message"`
	Choices   []int    `json:"choices"`
	Trace     []Pt     `json:"trace"`
	Log       []string `json:"log,omitempty"`
	Count     int      `json:"count"`
	Shard     int      `json:"shard"`
}

type skipSentinel struct{ foreign bool }

// X is the context of one execution.
type X struct {
	e       *Explorer
	prefix  []int
	Trace   []Pt
	devs    int
	T       *testing.T
	logs    []string
	fails   []*Violation
	nontriv []string
	states  []uint64
	notes   []string
	trans   int
	evals   int
	Replay  bool
	sample  any
}

// Choose returns a pick in [0,n). n must be >= 1.
func (x *X) Choose(label string, n int) int { return x.choose(label, n, false) }

// ChooseDev is Choose for a deviation-bounded label: 0 is the default.
func (x *X) ChooseDev(label string, n int) int { return x.choose(label, n, true) }

func (x *X) choose(label string, n int, dev bool) int {
	if n < 1 {
		panic(fmt.Sprintf("mc: Choose(%q,%d)", label, n))
	}
	if dev && x.devs >= x.e.Bound {
		n = 1
	}
	i := len(x.Trace)
	pick := 0
	if i < len(x.prefix) {
		pick = x.prefix[i]
		if pick >= n {
			panic(fmt.Sprintf("mc: replay divergence at point %d (%s): pick %d >= n %d", i, label, pick, n))
		}
	}
	if dev && pick != 0 {
		x.devs++
	}
	x.Trace = append(x.Trace, Pt{Label: label, N: n, Pick: pick, Dev: dev})
	if len(x.Trace) == x.e.ShardDepth && x.e.Shards > 1 && !x.Replay {
		if x.e.shardOf(x.Trace) != x.e.Shard {
			panic(skipSentinel{foreign: true})
		}
	}
	return pick
}

// Pick chooses one of opts.
func Pick[T any](x *X, label string, opts []T) T {
	i := x.Choose(label, len(opts))
	x.Trace[len(x.Trace)-1].Desc = trunc(fmt.Sprint(opts[i]), 80)
	return opts[i]
}

// PickDev chooses one of opts, opts[0] being the default (non-deviating) answer.
func PickDev[T any](x *X, label string, opts []T) T {
	i := x.ChooseDev(label, len(opts))
	x.Trace[len(x.Trace)-1].Desc = trunc(fmt.Sprint(opts[i]), 80)
	return opts[i]
}

func trunc(s string, n int) string {
	if len(s) > n {
		return s[:n] + "…"
	}
	return s
}

// Skip abandons this execution: the combination of choices is outside the alphabet.
func (x *X) Skip() { panic(skipSentinel{}) }

// Logf adds a line to the execution narrative (kept for samples and replays).
func (x *X) Logf(format string, a ...any) {
	if len(x.logs) < 400 {
		x.logs = append(x.logs, trunc(fmt.Sprintf(format, a...), 2000))
	}
}

// Failf records a violation with a signature (the minimal distinguishing features).
func (x *X) Failf(signature, format string, a ...any) {
	x.fails = append(x.fails, &Violation{Signature: signature, Message: fmt.Sprintf(format, a...)})
}

// Failed reports whether this execution already recorded a violation.
func (x *X) Failed() bool { return len(x.fails) > 0 }

// Nontrivial records that the property's antecedent was true in this execution, with a class signature.
func (x *X) Nontrivial(sig string) { x.nontriv = append(x.nontriv, sig) }

// Note increments a histogram bucket.
func (x *X) Note(key string) { x.notes = append(x.notes, key) }

// State records a canonical state / observation class reached by this execution.
func (x *X) State(parts ...string) {
	h := fnv.New64a()
	for _, p := range parts {
		h.Write([]byte(p))
		h.Write([]byte{0})
	}
	x.states = append(x.states, h.Sum64())
}

// Transitions adds n implementation steps (exchanges, store ops, scheduler steps).
func (x *X) Transitions(n int) { x.trans += n }

// Evals adds n finer-grained evaluated cases (e.g. file mutants tried inside one execution).
func (x *X) Evals(n int) { x.evals += n }

// Sample sets a structured description of the execution for the evidence file.
func (x *X) Sample(v any) { x.sample = v }

// Devs returns the number of deviations made so far in this execution.
func (x *X) Devs() int { return x.devs }

// Bound returns the deviation bound of the exploration.
func (x *X) Bound() int { return x.e.Bound }

// Tier returns "quick" or "thorough".
func (x *X) Tier() string { return x.e.Tier }

// Explorer enumerates a choice tree.
type Explorer struct {
	Property   string
	Tier       string
	Bound      int // max deviations per execution
	Shards     int
	Shard      int
	ShardDepth int
	NoBubble   bool
	// LeaksMatter: a bubble that ends while goroutines are still blocked is a violation (only for properties
	// that speak about goroutines and hangs); otherwise it is merely counted.
	LeaksMatter bool
	Deadline    time.Time
	Run         func(x *X)

	res      ShardResult
	states   map[uint64]struct{}
	nontriv  map[string]int
	notes    map[string]int
	viol     map[string]*Violation
	cur      *os.File
	maxSampl int
}

// ShardResult is what one shard process reports.
type ShardResult struct {
	Property    string         `json:"property"`
	Tier        string         `json:"tier"`
	Shard       int            `json:"shard"`
	Shards      int            `json:"shards"`
	Bound       int            `json:"bound"`
	Executions  int64          `json:"executions"`
	Skipped     int64          `json:"skipped"`
	Foreign     int64          `json:"foreign"`
	Points      int64          `json:"points"`
	Transitions int64          `json:"transitions"`
	Reruns      int64          `json:"reruns"`
	MaxDepth    int            `json:"max_depth"`
	Exhaustive  bool           `json:"exhaustive"`
	StatesFile  string         `json:"states_file,omitempty"`
	NStates     int            `json:"nstates"`
	Nontrivial  map[string]int `json:"nontrivial"`
	Notes       map[string]int `json:"notes"`
	Samples     []any          `json:"samples"`
	Violations  []*Violation   `json:"violations"`
	HarnessErrs []string       `json:"harness_errors"`
	Unstable    []*Violation   `json:"unstable"`
	WallS       float64        `json:"wall_s"`
	Extra       map[string]any `json:"extra,omitempty"`
}

func (e *Explorer) shardOf(tr []Pt) int {
	h := fnv.New32a()
	n := len(tr)
	if n > e.ShardDepth {
		n = e.ShardDepth
	}
	var b [4]byte
	for _, p := range tr[:n] {
		binary.LittleEndian.PutUint32(b[:], uint32(p.Pick))
		h.Write(b[:])
	}
	return int(h.Sum32() % uint32(e.Shards))
}

type outcome int

const (
	ran outcome = iota
	skipped
	foreign
)

// exec runs one execution with the given prefix.
func (e *Explorer) exec(t *testing.T, prefix []int, replay bool) (x *X, oc outcome, panicked any, stack string) {
	x = &X{e: e, prefix: prefix, Replay: replay}
	body := func(t *testing.T) {
		x.T = t
		defer func() {
			if r := recover(); r != nil {
				if s, ok := r.(skipSentinel); ok {
					if s.foreign {
						oc = foreign
					} else {
						oc = skipped
					}
					return
				}
				panicked = r
				stack = string(debug.Stack())
			}
		}()
		e.Run(x)
	}
	if e.NoBubble {
		body(t)
	} else {
		func() {
			defer func() {
				if r := recover(); r != nil {
					// synctest.Test panics when the root returns with blocked goroutines.
					if panicked == nil {
						panicked = fmt.Sprint("bubble: ", r)
					}
				}
			}()
			synctest.Test(t, body)
		}()
	}
	return
}

func next(tr []Pt) []int {
	for i := len(tr) - 1; i >= 0; i-- {
		if tr[i].Pick+1 < tr[i].N {
			p := make([]int, i+1)
			for j := 0; j < i; j++ {
				p[j] = tr[j].Pick
			}
			p[i] = tr[i].Pick + 1
			return p
		}
	}
	return nil
}

func picks(tr []Pt) []int {
	p := make([]int, len(tr))
	for i := range tr {
		p[i] = tr[i].Pick
	}
	return p
}

// Explore runs the whole enumeration for this shard.
func (e *Explorer) Explore(t *testing.T) *ShardResult {
	start := time.Now()
	e.states = map[uint64]struct{}{}
	e.nontriv = map[string]int{}
	e.notes = map[string]int{}
	e.viol = map[string]*Violation{}
	if e.ShardDepth == 0 {
		e.ShardDepth = 2
	}
	if e.Shards == 0 {
		e.Shards = 1
	}
	e.res = ShardResult{Property: e.Property, Tier: e.Tier, Shard: e.Shard, Shards: e.Shards, Bound: e.Bound, Exhaustive: true}
	if p := os.Getenv("VERIF_CUR"); p != "" {
		e.cur, _ = os.OpenFile(p, os.O_CREATE|os.O_RDWR, 0o644)
	}
	var prefix []int
	n := 0
	for {
		n++
		if n&63 == 0 && !e.Deadline.IsZero() && time.Now().After(e.Deadline) {
			e.res.Exhaustive = false
			break
		}
		if e.cur != nil {
			e.writeCur(prefix)
		}
		x, oc, pan, stack := e.exec(t, prefix, false)
		switch oc {
		case foreign:
			e.res.Foreign++
		case skipped:
			e.res.Skipped++
		default:
			e.account(t, x, pan, stack)
		}
		prefix = next(x.Trace)
		if prefix == nil {
			break
		}
	}
	e.finish(start)
	return &e.res
}

func (e *Explorer) writeCur(prefix []int) {
	var sb strings.Builder
	for i, p := range prefix {
		if i > 0 {
			sb.WriteByte(',')
		}
		sb.WriteString(strconv.Itoa(p))
	}
	sb.WriteString("\n                                        \n")
	_, _ = e.cur.WriteAt([]byte(sb.String()), 0)
}

func (e *Explorer) account(t *testing.T, x *X, pan any, stack string) {
	e.res.Executions++
	e.res.Points += int64(len(x.Trace))
	e.res.Transitions += int64(x.trans)
	if x.evals > 0 {
		if e.res.Extra == nil {
			e.res.Extra = map[string]any{}
		}
		prev, _ := e.res.Extra["evaluations"].(int)
		e.res.Extra["evaluations"] = prev + x.evals
	}
	if len(x.Trace) > e.res.MaxDepth {
		e.res.MaxDepth = len(x.Trace)
	}
	for _, s := range x.states {
		e.states[s] = struct{}{}
	}
	for _, s := range x.nontriv {
		e.nontriv[s]++
	}
	for _, s := range x.notes {
		e.notes[s]++
	}
	if pan != nil {
		if v := panicViolation(pan, stack); e.LeaksMatter || !strings.HasPrefix(v.Signature, "goroutines still blocked") {
			x.fails = append(x.fails, v)
		} else {
			x.notes = append(x.notes, "goroutines still blocked at the end of an execution (not this property's concern)")
			e.notes["goroutines still blocked at the end of an execution (not this property's concern)"]++
		}
	}
	if len(e.res.Samples) < 3 && (x.sample != nil || len(x.logs) > 0) && len(x.nontriv) > 0 {
		e.res.Samples = append(e.res.Samples, e.sampleOf(x))
	}
	if len(x.fails) == 0 {
		return
	}
	// A violation is believed only if the same choice vector fails identically again.
	sigs := sigSet(x.fails)
	for i := 0; i < 2; i++ {
		y, _, pan2, _ := e.exec(t, picks(x.Trace), true)
		e.res.Reruns++
		if pan2 != nil {
			if v := panicViolation(pan2, ""); e.LeaksMatter || !strings.HasPrefix(v.Signature, "goroutines still blocked") {
				y.fails = append(y.fails, v)
			}
		}
		if s2 := sigSet(y.fails); s2 != sigs {
			first := ""
			if len(x.fails) > 0 {
				first = trunc(x.fails[0].Message, 1500)
			}
			// The verdict depends on something outside the choice vector (e.g. state the implementation keeps per
			// process, carried over from earlier executions of this shard). The runner re-executes the vector in a
			// fresh process and believes only what is reproducible there.
			if len(e.res.Unstable) < 20 {
				v := &Violation{Property: e.Property, Signature: "unstable verdict: " + sigs + " vs " + s2, Message: first, Choices: picks(x.Trace), Trace: x.Trace, Log: x.logs, Count: 1, Shard: e.Shard}
				e.res.Unstable = append(e.res.Unstable, v)
			}
			return
		}
	}
	for _, f := range x.fails {
		if v, ok := e.viol[f.Signature]; ok {
			v.Count++
			continue
		}
		if len(e.viol) >= 200 {
			continue
		}
		f.Property = e.Property
		f.Choices = picks(x.Trace)
		f.Trace = x.Trace
		f.Log = x.logs
		f.Count = 1
		f.Shard = e.Shard
		e.viol[f.Signature] = f
	}
}

func sigSet(fs []*Violation) string {
	m := map[string]bool{}
	for _, f := range fs {
		m[f.Signature] = true
	}
	ks := make([]string, 0, len(m))
	for k := range m {
		ks = append(ks, k)
	}
	sort.Strings(ks)
	return strings.Join(ks, "|")
}

func (e *Explorer) sampleOf(x *X) any {
	ch := make([]string, 0, len(x.Trace))
	for _, p := range x.Trace {
		d := p.Desc
		if d == "" {
			d = strconv.Itoa(p.Pick)
		}
		ch = append(ch, p.Label+"="+d)
	}
	m := map[string]any{"choices": ch}
	if x.sample != nil {
		m["case"] = x.sample
	}
	if len(x.logs) > 0 {
		l := x.logs
		if len(l) > 40 {
			l = l[:40]
		}
		m["log"] = l
	}
	return m
}

func (e *Explorer) finish(start time.Time) {
	e.res.NStates = len(e.states)
	e.res.Nontrivial = e.nontriv
	e.res.Notes = e.notes
	sigs := make([]string, 0, len(e.viol))
	for k := range e.viol {
		sigs = append(sigs, k)
	}
	sort.Strings(sigs)
	for _, k := range sigs {
		e.res.Violations = append(e.res.Violations, e.viol[k])
	}
	e.res.WallS = time.Since(start).Seconds()
}

// AddState lets a custom engine record a canonical state.
func (e *Explorer) AddState(parts ...string) {
	if e.states == nil {
		e.states = map[uint64]struct{}{}
	}
	h := fnv.New64a()
	for _, p := range parts {
		h.Write([]byte(p))
		h.Write([]byte{0})
	}
	e.states[h.Sum64()] = struct{}{}
}

// Finalize writes the set of distinct states next to the result (merged across shards by the runner).
func (e *Explorer) Finalize(res *ShardResult) {
	res.NStates = len(e.states)
	if p := os.Getenv("VERIF_STATES"); p != "" {
		buf := make([]byte, 0, 8*len(e.states))
		for s := range e.states {
			buf = binary.LittleEndian.AppendUint64(buf, s)
		}
		if err := os.WriteFile(p, buf, 0o644); err == nil {
			res.StatesFile = p
		}
	}
}

// ReplayOnce runs one execution with a fixed choice vector and returns its violations and narrative.
func (e *Explorer) ReplayOnce(t *testing.T, choices []int) (fails []*Violation, logs []string, trace []Pt, pan any) {
	if e.ShardDepth == 0 {
		e.ShardDepth = 2
	}
	x, _, p, stack := e.exec(t, choices, true)
	if p != nil {
		if v := panicViolation(p, stack); e.LeaksMatter || !strings.HasPrefix(v.Signature, "goroutines still blocked") {
			x.fails = append(x.fails, v)
		}
	}
	return x.fails, x.logs, x.Trace, p
}

// WriteResult writes the shard result as JSON.
func WriteResult(path string, r *ShardResult) error {
	b, err := json.Marshal(r)
	if err != nil {
		return err
	}
	return os.WriteFile(path, b, 0o644)
}

// panicViolation classifies a panic that escaped the check body. testing/synctest reports a bubble whose
// goroutines can never run again (a hang) and a bubble that ends while goroutines are still blocked (a leak)
// by panicking: both are property-relevant outcomes, not harness faults.
func panicViolation(pan any, stack string) *Violation {
	msg := fmt.Sprint(pan)
	switch {
	case strings.Contains(msg, "blocked goroutines remain"):
		return &Violation{Signature: "goroutines still blocked when the execution ends (leak or hang)", Message: msg}
	case strings.Contains(msg, "all goroutines in bubble are blocked"):
		return &Violation{Signature: "deadlock: the execution hangs", Message: msg}
	}
	return &Violation{Signature: "harness-panic", Message: fmt.Sprintf("unexpected panic in check body: %v\n%s", pan, trunc(stack, 3000))}
}
