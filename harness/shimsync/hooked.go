// Package shimsync stands in for package sync in the repository's non-test sources (mounted by
// `go build -overlay`, see vcheck). Its Mutex and RWMutex behave like the real ones, but a goroutine that
// has to wait for a lock waits on a channel — which testing/synctest counts as durably blocked, so the
// cooperative scheduler can see that the thread is not enabled and run another one (a wait inside the
// real sync.Mutex would stall synctest.Wait forever). When the lock is handed over, the new owner first
// reports to Hook (a scheduling point) so that still only one thread runs at a time. Everything else of
// package sync is re-exported unchanged (passthrough.go, generated).
package shimsync

import "sync"

// Hook, if set, is called by a goroutine that has just been granted a lock it had to wait for.
var Hook func(op string)

func granted(op string) {
	if h := Hook; h != nil {
		h(op)
	}
}

// Mutex is a mutual exclusion lock with FIFO hand-over. The zero value is an unlocked mutex.
type Mutex struct {
	mu      sync.Mutex
	locked  bool
	waiters []chan struct{}
}

func (m *Mutex) Lock() {
	m.mu.Lock()
	if !m.locked {
		m.locked = true
		m.mu.Unlock()
		return
	}
	ch := make(chan struct{})
	m.waiters = append(m.waiters, ch)
	m.mu.Unlock()
	<-ch // ownership is handed over by Unlock
	granted("mutex: lock granted")
}

func (m *Mutex) TryLock() bool {
	m.mu.Lock()
	defer m.mu.Unlock()
	if m.locked {
		return false
	}
	m.locked = true
	return true
}

func (m *Mutex) Unlock() {
	m.mu.Lock()
	if !m.locked {
		m.mu.Unlock()
		panic("sync: unlock of unlocked mutex")
	}
	if len(m.waiters) > 0 {
		ch := m.waiters[0]
		m.waiters = m.waiters[1:]
		m.mu.Unlock()
		close(ch) // stays locked: the waiter now owns it
		return
	}
	m.locked = false
	m.mu.Unlock()
}

type rwWaiter struct {
	write bool
	ch    chan struct{}
}

// RWMutex is a reader/writer lock with FIFO hand-over. The zero value is unlocked.
type RWMutex struct {
	mu      sync.Mutex
	writer  bool
	readers int
	q       []*rwWaiter
}

func (rw *RWMutex) grant() {
	for len(rw.q) > 0 {
		h := rw.q[0]
		if h.write {
			if rw.readers == 0 && !rw.writer {
				rw.writer = true
				rw.q = rw.q[1:]
				close(h.ch)
			}
			return
		}
		if rw.writer {
			return
		}
		rw.readers++
		rw.q = rw.q[1:]
		close(h.ch)
	}
}

func (rw *RWMutex) Lock() {
	rw.mu.Lock()
	if !rw.writer && rw.readers == 0 && len(rw.q) == 0 {
		rw.writer = true
		rw.mu.Unlock()
		return
	}
	w := &rwWaiter{write: true, ch: make(chan struct{})}
	rw.q = append(rw.q, w)
	rw.mu.Unlock()
	<-w.ch
	granted("rwmutex: write lock granted")
}

func (rw *RWMutex) TryLock() bool {
	rw.mu.Lock()
	defer rw.mu.Unlock()
	if rw.writer || rw.readers > 0 || len(rw.q) > 0 {
		return false
	}
	rw.writer = true
	return true
}

func (rw *RWMutex) Unlock() {
	rw.mu.Lock()
	if !rw.writer {
		rw.mu.Unlock()
		panic("sync: Unlock of unlocked RWMutex")
	}
	rw.writer = false
	rw.grant()
	rw.mu.Unlock()
}

func (rw *RWMutex) RLock() {
	rw.mu.Lock()
	if !rw.writer && len(rw.q) == 0 {
		rw.readers++
		rw.mu.Unlock()
		return
	}
	w := &rwWaiter{ch: make(chan struct{})}
	rw.q = append(rw.q, w)
	rw.mu.Unlock()
	<-w.ch
	granted("rwmutex: read lock granted")
}

func (rw *RWMutex) TryRLock() bool {
	rw.mu.Lock()
	defer rw.mu.Unlock()
	if rw.writer || len(rw.q) > 0 {
		return false
	}
	rw.readers++
	return true
}

func (rw *RWMutex) RUnlock() {
	rw.mu.Lock()
	if rw.readers == 0 {
		rw.mu.Unlock()
		panic("sync: RUnlock of unlocked RWMutex")
	}
	rw.readers--
	rw.grant()
	rw.mu.Unlock()
}

type rlocker RWMutex

func (r *rlocker) Lock()   { (*RWMutex)(r).RLock() }
func (r *rlocker) Unlock() { (*RWMutex)(r).RUnlock() }

// RLocker returns a Locker whose Lock and Unlock call RLock and RUnlock.
func (rw *RWMutex) RLocker() sync.Locker { return (*rlocker)(rw) }

// generic helpers cannot be re-exported as variables
func OnceFunc(f func()) func()                                 { return sync.OnceFunc(f) }
func OnceValue[T any](f func() T) func() T                     { return sync.OnceValue(f) }
func OnceValues[T1, T2 any](f func() (T1, T2)) func() (T1, T2) { return sync.OnceValues(f) }
