// Package oracle holds the reference calculators the checks compare the
// implementation against. They are written independently of /repo's code, from
// RFC 9111 / RFC 9110 / RFC 3986 / RFC 5861, with saturating arithmetic and —
// where the RFCs leave latitude — a *set* of permitted interpretations.
package oracle

import (
	"net/http"
	"strconv"
	"strings"
	"time"
)

// Cap is the saturation point for all second counts (well above 2^31, far below overflow).
const Cap = int64(1) << 40

func sat(v int64) int64 {
	if v > Cap {
		return Cap
	}
	if v < -Cap {
		return -Cap
	}
	return v
}

func satAdd(a, b int64) int64 { return sat(sat(a) + sat(b)) }

// ---------------------------------------------------------------- Cache-Control

// Directive is one cache directive.
type Directive struct {
	Name   string // lower case
	Arg    string // unquoted
	HasArg bool
}

// ParseCC parses all Cache-Control field lines of h per RFC 9111 §5.2 / RFC 9110 §5.6.1:
// field lines are combined, the list is split on commas outside quoted strings, empty
// elements are ignored, names are case-insensitive, arguments may be tokens or quoted-strings.
func ParseCC(h http.Header) []Directive {
	var out []Directive
	for _, line := range h.Values("Cache-Control") {
		for _, el := range splitList(line) {
			name, arg, has := strings.Cut(el, "=")
			name = strings.ToLower(strings.TrimSpace(name))
			if name == "" {
				continue
			}
			arg = strings.TrimSpace(arg)
			if has && len(arg) >= 2 && arg[0] == '"' && arg[len(arg)-1] == '"' {
				arg = unquote(arg[1 : len(arg)-1])
			}
			out = append(out, Directive{Name: name, Arg: arg, HasArg: has})
		}
	}
	return out
}

func unquote(s string) string {
	var b strings.Builder
	for i := 0; i < len(s); i++ {
		if s[i] == '\\' && i+1 < len(s) {
			i++
		}
		b.WriteByte(s[i])
	}
	return b.String()
}

func splitList(s string) []string {
	var out []string
	var cur strings.Builder
	inq, esc := false, false
	flush := func() {
		if t := strings.TrimSpace(cur.String()); t != "" {
			out = append(out, t)
		}
		cur.Reset()
	}
	for i := 0; i < len(s); i++ {
		c := s[i]
		switch {
		case esc:
			cur.WriteByte(c)
			esc = false
		case inq && c == '\\':
			cur.WriteByte(c)
			esc = true
		case c == '"':
			inq = !inq
			cur.WriteByte(c)
		case c == ',' && !inq:
			flush()
		default:
			cur.WriteByte(c)
		}
	}
	flush()
	return out
}

// CC is a parsed directive set with lookups.
type CC []Directive

func (c CC) Has(name string) bool {
	for _, d := range c {
		if d.Name == name {
			return true
		}
	}
	return false
}

func (c CC) Get(name string) (Directive, bool) {
	for _, d := range c {
		if d.Name == name {
			return d, true
		}
	}
	return Directive{}, false
}

// Delta returns the interpretations of a delta-seconds argument: ok=false when the
// directive is absent. A valid non-negative integer has exactly one reading (saturated at
// Cap); anything else is "invalid" and reads as nil (the caller decides the tolerance).
func (c CC) Delta(name string) (vals []int64, present bool) {
	d, ok := c.Get(name)
	if !ok {
		return nil, false
	}
	if v, ok := ParseDelta(d.Arg); ok {
		return []int64{v}, true
	}
	return nil, true
}

// ParseDelta parses 1*DIGIT with saturation.
func ParseDelta(s string) (int64, bool) {
	if s == "" {
		return 0, false
	}
	var v int64
	for i := 0; i < len(s); i++ {
		if s[i] < '0' || s[i] > '9' {
			return 0, false
		}
		if v < Cap {
			v = v*10 + int64(s[i]-'0')
		}
	}
	return sat(v), true
}

// ---------------------------------------------------------------- stored response ghost

// Stored is what RFC 9111 calls the stored response's metadata.
type Stored struct {
	Status   int
	Header   http.Header
	ReqTime  time.Time
	RespTime time.Time
}

// ApplyNotModified freshens the ghost with a 304 per RFC 9111 §4.3.4.
func (s *Stored) ApplyNotModified(h http.Header, reqTime, respTime time.Time) *Stored {
	n := &Stored{Status: s.Status, Header: s.Header.Clone(), ReqTime: reqTime, RespTime: respTime}
	hop := map[string]bool{"Connection": true, "Proxy-Connection": true, "Keep-Alive": true, "Te": true, "Transfer-Encoding": true,
		"Upgrade": true, "Proxy-Authenticate": true, "Proxy-Authentication-Info": true, "Proxy-Authorization": true, "Content-Length": true}
	for k, v := range h {
		if hop[k] {
			continue
		}
		n.Header[k] = append([]string(nil), v...)
	}
	if len(h.Values("Age")) == 0 {
		n.Header.Del("Age") // the age restarts from the validation: an Age received with the first copy says nothing about the 304
	}
	return n
}

func (s *Stored) date() time.Time {
	if t, err := http.ParseTime(s.Header.Get("Date")); err == nil {
		return t
	}
	return s.RespTime
}

func secsBetween(a, b time.Time) int64 { return sat(int64(a.Sub(b) / time.Second)) }

// AgeValues returns the tolerated readings of the Age field (seconds).
func (s *Stored) AgeValues() []int64 {
	vs := s.Header.Values("Age")
	if len(vs) == 0 {
		return []int64{0}
	}
	first := strings.TrimSpace(strings.Split(vs[0], ",")[0])
	whole := strings.TrimSpace(vs[0])
	if v, ok := ParseDelta(whole); ok && len(vs) == 1 {
		return []int64{v}
	}
	// invalid or multi-member: ignore it, or use the first member (RFC 9111 §5.1)
	out := []int64{0}
	if v, ok := ParseDelta(first); ok && v != 0 {
		out = append(out, v)
	}
	return out
}

// Ages returns the tolerated current_age values at time now (RFC 9111 §4.2.3), saturating.
func (s *Stored) Ages(now time.Time) []int64 {
	apparent := max64(0, secsBetween(s.RespTime, s.date()))
	delay := max64(0, secsBetween(s.RespTime, s.ReqTime))
	resident := max64(0, secsBetween(now, s.RespTime))
	var out []int64
	for _, av := range s.AgeValues() {
		corrected := satAdd(av, delay)
		initial := max64(apparent, corrected)
		out = append(out, satAdd(initial, resident))
	}
	return out
}

func max64(a, b int64) int64 {
	if a > b {
		return a
	}
	return b
}

// HeuristicStatus reports statuses that RFC 9110 §15.1 defines as heuristically cacheable.
func HeuristicStatus(code int) bool {
	switch code {
	case 200, 203, 204, 206, 300, 301, 308, 404, 405, 410, 414, 501:
		return true
	}
	return false
}

// Lifetimes returns the tolerated freshness lifetimes in *tenths of a second* is avoided:
// the result is in seconds as a rational pair (num, den) so that "10 % of Date − Last-Modified"
// is exact. A response with no usable freshness information has lifetime 0.
type Life struct {
	Num, Den int64 // lifetime = Num/Den seconds
	Why      string
}

func (l Life) FreshAt(age int64) bool { return sat(age)*l.Den < l.Num } // strictly below
// StaleBy returns ceil(age - lifetime) clipped at 0, in whole seconds (age is integral).
func (l Life) StaleBy(age int64) int64 {
	if l.FreshAt(age) {
		return 0
	}
	// age - Num/Den
	d := sat(age)*l.Den - l.Num // >= 0
	return d / l.Den            // floor: staleness of at least this many whole seconds
}

// Lifetimes returns every permitted reading of the freshness lifetime (RFC 9111 §4.2.1–4.2.2).
func (s *Stored) Lifetimes() []Life {
	cc := CC(ParseCC(s.Header))
	if vals, present := cc.Delta("max-age"); present {
		if len(vals) == 1 {
			return []Life{{vals[0], 1, "max-age"}}
		}
		// invalid max-age: either treated as stale (§4.2.1 "encouraged to consider ... stale") or ignored.
		out := []Life{{0, 1, "invalid max-age => stale"}}
		for _, l := range s.lifetimesNoMaxAge(cc) {
			out = append(out, l)
		}
		return out
	}
	return s.lifetimesNoMaxAge(cc)
}

func (s *Stored) lifetimesNoMaxAge(cc CC) []Life {
	if ev := s.Header.Values("Expires"); len(ev) > 0 {
		t, err := http.ParseTime(ev[0])
		if err != nil {
			return []Life{{0, 1, "invalid Expires"}}
		}
		return []Life{{max64(0, secsBetween(t, s.date())), 1, "Expires-Date"}}
	}
	if HeuristicStatus(s.Status) || cc.Has("public") {
		if lm, err := http.ParseTime(s.Header.Get("Last-Modified")); err == nil {
			d := secsBetween(s.date(), lm)
			if d > 0 {
				return []Life{{d, 10, "heuristic 10%"}}
			}
		}
	}
	return []Life{{0, 1, "no freshness information"}}
}

// MaxLife returns the largest tolerated lifetime.
func MaxLife(ls []Life) Life {
	best := ls[0]
	for _, l := range ls[1:] {
		if l.Num*best.Den > best.Num*l.Den {
			best = l
		}
	}
	return best
}

// MinLife returns the smallest tolerated lifetime.
func MinLife(ls []Life) Life {
	best := ls[0]
	for _, l := range ls[1:] {
		if l.Num*best.Den < best.Num*l.Den {
			best = l
		}
	}
	return best
}

func MinAge(as []int64) int64 {
	m := as[0]
	for _, a := range as[1:] {
		if a < m {
			m = a
		}
	}
	return m
}

func MaxAge(as []int64) int64 {
	m := as[0]
	for _, a := range as[1:] {
		if a > m {
			m = a
		}
	}
	return m
}

// Itoa is strconv.FormatInt(v,10).
func Itoa(v int64) string { return strconv.FormatInt(v, 10) }
