package oracle

import (
	"net/url"
	"strconv"
	"strings"
)

// URI normal forms per RFC 3986 §6.2.2–6.2.3, computed on what Go puts on the wire
// (scheme, URL.Host, EscapedPath, RawQuery). Strict contains only equivalences the
// property requires; Loose additionally identifies spellings a cache may reasonably
// identify. Safety checks fire only when Loose forms differ, liveness checks demand a
// hit only when Strict forms are equal.

func isUnreservedASCII(b byte) bool {
	return (b >= 'a' && b <= 'z') || (b >= 'A' && b <= 'Z') || (b >= '0' && b <= '9') || b == '-' || b == '.' || b == '_' || b == '~'
}

func isHex(b byte) bool {
	return (b >= '0' && b <= '9') || (b >= 'a' && b <= 'f') || (b >= 'A' && b <= 'F')
}

func unhex(b byte) byte {
	switch {
	case b >= '0' && b <= '9':
		return b - '0'
	case b >= 'a' && b <= 'f':
		return b - 'a' + 10
	}
	return b - 'A' + 10
}

const upperhex = "0123456789ABCDEF"

// normPct upper-cases percent-escapes and decodes escaped unreserved ASCII. With
// escapeRaw, raw bytes >= 0x80 are percent-encoded as well (loose form).
func normPct(s string, escapeRaw bool) string {
	var b strings.Builder
	for i := 0; i < len(s); i++ {
		c := s[i]
		if c == '%' && i+2 < len(s) && isHex(s[i+1]) && isHex(s[i+2]) {
			v := unhex(s[i+1])<<4 | unhex(s[i+2])
			if isUnreservedASCII(v) {
				b.WriteByte(v)
			} else {
				b.WriteByte('%')
				b.WriteByte(upperhex[v>>4])
				b.WriteByte(upperhex[v&15])
			}
			i += 2
			continue
		}
		if escapeRaw && c >= 0x80 {
			b.WriteByte('%')
			b.WriteByte(upperhex[c>>4])
			b.WriteByte(upperhex[c&15])
			continue
		}
		b.WriteByte(c)
	}
	return b.String()
}

// removeDotSegments implements RFC 3986 §5.2.4.
func removeDotSegments(p string) string {
	var out []string
	in := p
	for len(in) > 0 {
		switch {
		case strings.HasPrefix(in, "../"):
			in = in[3:]
		case strings.HasPrefix(in, "./"):
			in = in[2:]
		case strings.HasPrefix(in, "/./"):
			in = in[2:]
		case in == "/.":
			in = "/"
		case strings.HasPrefix(in, "/../"):
			in = in[3:]
			if len(out) > 0 {
				out = out[:len(out)-1]
			}
		case in == "/..":
			in = "/"
			if len(out) > 0 {
				out = out[:len(out)-1]
			}
		case in == "." || in == "..":
			in = ""
		default:
			j := 0
			if in[0] == '/' {
				j = 1
			}
			k := strings.IndexByte(in[j:], '/')
			if k < 0 {
				out = append(out, in)
				in = ""
			} else {
				out = append(out, in[:j+k])
				in = in[j+k:]
			}
		}
	}
	return strings.Join(out, "")
}

func splitHostPortRFC(hostport string) (host, port string, hasPort bool) {
	if strings.HasPrefix(hostport, "[") {
		if i := strings.LastIndexByte(hostport, ']'); i >= 0 {
			rest := hostport[i+1:]
			if strings.HasPrefix(rest, ":") {
				return hostport[:i+1], rest[1:], true
			}
			return hostport[:i+1], "", false
		}
		return hostport, "", false
	}
	if i := strings.LastIndexByte(hostport, ':'); i >= 0 {
		return hostport[:i], hostport[i+1:], true
	}
	return hostport, "", false
}

// URIForm is a decomposed normal form.
type URIForm struct {
	Scheme, User, Host, Port, Path, Query string
}

func (f URIForm) String() string {
	return f.Scheme + "://" + f.User + f.Host + ":" + f.Port + f.Path + "?" + f.Query
}

// Diff names the components in which two forms differ.
func (f URIForm) Diff(g URIForm) string {
	var d []string
	if f.Scheme != g.Scheme {
		d = append(d, "scheme")
	}
	if f.User != g.User {
		d = append(d, "userinfo")
	}
	if f.Host != g.Host {
		d = append(d, "host")
	}
	if f.Port != g.Port {
		d = append(d, "port")
	}
	if f.Path != g.Path {
		d = append(d, "path")
	}
	if f.Query != g.Query {
		d = append(d, "query")
	}
	return strings.Join(d, "+")
}

func defaultPort(scheme string) string {
	switch scheme {
	case "http":
		return "80"
	case "https":
		return "443"
	}
	return ""
}

// NormalizeURI returns the strict and loose forms of u.
func NormalizeURI(u *url.URL) (strict, loose URIForm) {
	scheme := strings.ToLower(u.Scheme)
	host, port, _ := splitHostPortRFC(u.Host)
	host = strings.ToLower(host)
	sPort := port
	if sPort == "" || sPort == defaultPort(scheme) {
		sPort = defaultPort(scheme)
	}
	lPort := sPort
	if n, err := strconv.Atoi(port); err == nil && port != "" {
		lPort = strconv.Itoa(n) // numerically equal ports (":080")
		if lPort == defaultPort(scheme) {
			lPort = defaultPort(scheme)
		}
	}
	ep := u.EscapedPath()
	// strict: dot segments as written, then escapes normalised (so %2e%2e is not a dot segment)
	sPath := normPct(removeDotSegments(ep), false)
	// loose: escapes normalised first (RFC 3986 §6.2.2 order), then dot segments
	lPath := removeDotSegments(normPct(ep, true))
	if sPath == "" {
		sPath = "/"
	}
	if lPath == "" {
		lPath = "/"
	}
	sQuery := "-"
	if u.RawQuery != "" || u.ForceQuery {
		sQuery = "?" + normPct(u.RawQuery, false)
	}
	lQuery := normPct(u.RawQuery, true) // empty ≡ absent
	user := ""
	if u.User != nil {
		user = u.User.String() + "@"
	}
	strict = URIForm{scheme, user, host, sPort, sPath, sQuery}
	loose = URIForm{scheme, "", host, lPort, lPath, lQuery}
	return
}
