package checks

import (
	"fmt"
	"net/http"
	"strconv"
	"time"

	"verifharness/mc"
	"verifharness/oracle"
	"verifharness/world"
)

// C11 — Age and cache-status fields on responses tell the truth.
func init() { register(&Check{ID: "C11", Run: runC11, ShardDepth: 2}) }

const c11NoDate = int64(999)

var c11Paths = []string{"fresh-hit", "fresh-hit, stored no-cache names the cache's own fields", "max-stale", "only-if-cached-fresh", "only-if-cached-stale", "swr", "sie-500", "sie-error", "sie-req-max-age0", "sie-request-only-max-age0",
	"revalidated", "validated-200", "validated-500", "miss", "head", "post", "range", "504", "no-cache-304", "heuristic-hit", "post-500", "delete-404", "head-503", "put-503"}

func runC11(x *mc.X) {
	path := mc.Pick(x, "path", c11Paths)
	originAge := mc.Pick(x, "origin.age", []string{"", "0", "7", "x", "99999999999999999999"})
	skew := mc.Pick(x, "origin.date-skew", []int64{0, -5, 5, c11NoDate})
	noDate := skew == c11NoDate
	if noDate {
		skew = 0 // the origin sends no Date at all: the cache has to supply the time of receipt
	}
	delay := mc.Pick(x, "origin.delay", []int64{0, 3})
	poison := x.Choose("origin.sends-cache-fields", 2) == 1
	eIdx := x.Choose("elapsed", 3)
	proto := mc.Pick(x, "origin.protocol", []string{"", "HTTP/2.0", "HTTP/1.0"})

	primed := x.Choose("after-an-unrelated-exchange", 2) == 1
	w := world.New(world.Opt{})
	defer w.Close()
	if primed {
		primeUnrelated(x, w)
	}
	ccv, reqCC, method, rng := "max-age=100", "", "GET", ""
	elapsedMenu := []int64{0, 10, 50}
	follow := "200"
	store := true
	switch path {
	case "fresh-hit":
	case "fresh-hit, stored no-cache names the cache's own fields": // such a list concerns STORED fields; what the cache adds itself stays
		ccv = `max-age=100, no-cache="Set-Cookie, Age, X-Httpcache-Status, X-From-Cache"`
	case "heuristic-hit":
		ccv = ""
		elapsedMenu = []int64{0, 10, 50}
	case "max-stale":
		ccv, reqCC, elapsedMenu = "max-age=5", "max-stale", []int64{10, 50, 5000}
	case "only-if-cached-fresh":
		reqCC = "only-if-cached"
	case "only-if-cached-stale":
		ccv, reqCC, elapsedMenu = "max-age=5", "only-if-cached", []int64{10, 50, 5000}
	case "swr":
		ccv, elapsedMenu, follow = "max-age=5, stale-while-revalidate=100", []int64{10, 50, 90}, "304-bg"
	case "sie-500":
		ccv, elapsedMenu, follow = "max-age=5, stale-if-error=100", []int64{10, 50, 90}, "500"
	case "sie-error":
		ccv, elapsedMenu, follow = "max-age=5, stale-if-error=100", []int64{10, 50, 90}, "error"
	case "sie-req-max-age0":
		ccv, reqCC, elapsedMenu, follow = "max-age=100, stale-if-error=100", "max-age=0", []int64{10, 50, 90}, "500"
	case "sie-request-only-max-age0":
		ccv, reqCC, elapsedMenu, follow = "max-age=100", "max-age=0, stale-if-error=1000", []int64{10, 50, 90}, "500"
	case "revalidated":
		ccv, elapsedMenu, follow = "max-age=5", []int64{10, 50, 5000}, "304"
	case "no-cache-304":
		reqCC, follow = "no-cache", "304"
	case "validated-200":
		ccv, elapsedMenu = "max-age=5", []int64{10, 50, 5000}
	case "validated-500":
		ccv, elapsedMenu, follow = "max-age=5", []int64{10, 50, 5000}, "500"
	case "miss":
		store = false
	case "head":
		method = "HEAD"
	case "post":
		method = "POST"
	case "post-500":
		method, follow = "POST", "500"
	case "delete-404":
		method, follow = "DELETE", "404"
	case "head-503":
		method, follow = "HEAD", "503"
	case "put-503":
		method, follow = "PUT", "503"
	case "range":
		rng = "bytes=0-1"
	case "504":
		store, reqCC = false, "only-if-cached"
	}
	elapsed := elapsedMenu[eIdx]

	poisonH := func(h [][2]string) [][2]string {
		if poison {
			h = append(h, [2]string{"X-From-Cache", "1"}, [2]string{"X-Httpcache-Status", "HIT"})
		}
		return h
	}
	var o1 *world.Obs
	var st *oracle.Stored
	if store {
		h := H("ETag", `"v1"`)
		h = hdrIf(h, "Cache-Control", ccv)
		if path == "heuristic-hit" {
			h = append(h, [2]string{"Last-Modified", httpDate(w.Epoch.Add(-secs(100000)))})
		}
		h = hdrIf(h, "Age", originAge)
		answer(w, RS{Status: 200, H: poisonH(h), Delay: secs(delay), DateOff: secs(skew), Proto: proto, NoDate: noDate})
		o1 = get(w, U)
		logObs(x, fmt.Sprintf("GET (origin: 200 %v delay=%ds date-skew=%ds)", h, delay, skew), o1)
		checkC11Fields(x, path+"/store", o1, nil, nil, time.Now())
		if o1.Tok == "" {
			return
		}
		tk := w.Origin.Toks[o1.Tok]
		st = &oracle.Stored{Status: tk.Status, Header: tk.Header, ReqTime: tk.ReqTime, RespTime: tk.RespTime}
		world.Advance(secs(elapsed))
	}
	// the 304 may come through an intermediary with an Age of its own (different from the one stored first)
	age304 := map[string]string{"": "", "0": "40", "7": "40", "x": "x", "99999999999999999999": "99999999999999999999"}[originAge]
	var h304 http.Header
	var c304 *world.Call
	answerFn(w, func(o *world.Origin, c *world.Call) (*http.Response, error) {
		cond := c.Header.Get("If-None-Match") != "" || c.Header.Get("If-Modified-Since") != ""
		if follow == "304-bg" && cond {
			resp := o.Respond(c, RS{Status: 304, NoTok: true, H: poisonH(hdrIf(H("ETag", `"v1"`), "Age", age304)), Delay: secs(delay), NoDate: noDate}) // the 304 may come through an intermediary (Age) and take its time
			h304, c304 = resp.Header.Clone(), c
			return resp, nil
		}
		switch {
		case follow == "304" && cond:
			resp := o.Respond(c, RS{Status: 304, NoTok: true, H: poisonH(hdrIf(H("ETag", `"v1"`), "Age", age304)), Delay: secs(delay), NoDate: noDate}) // the 304 may come through an intermediary (Age) and take its time
			h304, c304 = resp.Header.Clone(), c
			return resp, nil
		case follow == "500":
			return o.Respond(c, RS{Status: 500, H: poisonH(hdrIf(nil, "Age", originAge)), Delay: secs(delay)}), nil
		case follow == "404" || follow == "503":
			st, _ := strconv.Atoi(follow)
			return o.Respond(c, RS{Status: st, H: poisonH(hdrIf(nil, "Age", originAge)), Delay: secs(delay)}), nil
		case follow == "error":
			if err := world.Sleep(c.Req, secs(delay)); err != nil {
				return nil, err
			}
			return nil, errOrigin
		}
		return o.Respond(c, RS{Status: 200, H: poisonH(hdrIf(H("Cache-Control", "max-age=100", "ETag", `"v2"`), "Age", originAge)), Delay: secs(delay)}), nil
	})
	req := world.Req(method, U)
	if reqCC != "" {
		req.Header.Set("Cache-Control", reqCC)
	}
	if rng != "" {
		req.Header.Set("Range", rng)
	}
	now := time.Now()
	o2 := w.Do(req)
	logObs(x, fmt.Sprintf("%s after %ds Cache-Control=%q Range=%q (origin would answer %s)", method, elapsed, reqCC, rng, follow), o2)
	x.Nontrivial(path + "/" + obsClass(o2))
	x.State(path, originAge, fmt.Sprint(skew, delay, poison, elapsed), obsClass(o2), o2.Header.Get("Age"))
	x.Note(path + " -> " + obsClass(o2))
	x.Sample(map[string]any{"path": path, "origin_age": originAge, "date_skew_s": skew, "delay_s": delay, "origin_sends_cache_fields": poison, "elapsed_s": elapsed, "observed": o2.String(), "x_from_cache": o2.Header.Values("X-From-Cache")})
	checkC11Fields(x, path, o2, o1, st, now.Add(o2.Dur)) // the age is that at the moment the response is handed over
	// a further request after a 304 (foreground or background): the freshened entry must report truthfully too
	if c304 != nil && st != nil && o2.Err == nil && o2.Panic == nil {
		st2 := st.ApplyNotModified(h304, c304.At, c304.DoneAt)
		world.Advance(secs(2))
		answer(w, RS{Status: 200, H: H("Cache-Control", "no-store")})
		now3 := time.Now()
		o3 := get(w, U)
		logObs(x, "GET 2 s after the 304", o3)
		x.Nontrivial(path + "/after-304/" + obsClass(o3))
		checkC11Fields(x, path+"/after-304", o3, o1, st2, now3)
	}
}

func checkC11Fields(x *mc.X, path string, o, stored *world.Obs, st *oracle.Stored, now time.Time) {
	if o.Panic != nil || o.Err != nil {
		return
	}
	vs := o.Header.Values("X-Httpcache-Status")
	if len(vs) != 1 {
		x.Failf("not exactly one X-Httpcache-Status: "+path, "X-Httpcache-Status values: %q", vs)
		return
	}
	status := vs[0]
	fromStore := stored != nil && o.Tok != "" && o.Tok == stored.Tok
	validated304 := len(o.Calls) == 1 && o.Calls[0].Err == nil && o.Calls[0].RespCode == 304
	failedContact := len(o.Calls) >= 1 && (o.Calls[0].Err != nil || o.Calls[0].RespCode >= 500)
	var allowed []string
	switch {
	case fromStore && validated304:
		allowed = []string{"REVALIDATED"}
	case fromStore && failedContact:
		allowed = []string{"STALE"}
	case fromStore && len(o.Calls) == 0:
		ages := st.Ages(now)
		life := oracle.MaxLife(st.Lifetimes())
		minLife := oracle.MinLife(st.Lifetimes())
		switch {
		case minLife.FreshAt(oracle.MaxAge(ages)):
			allowed = []string{"HIT"} // fresh under every reading
		case !life.FreshAt(oracle.MinAge(ages)):
			allowed = []string{"HIT", "STALE"} // stale under every reading: the statement's two descriptions overlap
		default:
			allowed = []string{"HIT", "STALE"}
		}
	case fromStore:
		allowed = []string{"HIT", "STALE", "REVALIDATED"} // other contact patterns: not specified
	default:
		allowed = []string{"MISS", "BYPASS"}
	}
	ok := false
	for _, a := range allowed {
		if a == status {
			ok = true
		}
	}
	if !ok {
		x.Failf(fmt.Sprintf("wrong cache status %s on path %s", status, path), "X-Httpcache-Status=%q but what happened allows only %v (fromStore=%v foreground calls=%d validated304=%v failedContact=%v)", status, allowed, fromStore, len(o.Calls), validated304, failedContact)
	}
	fc := o.Header.Values("X-From-Cache")
	wantFC := status == "HIT" || status == "STALE" || status == "REVALIDATED"
	gotFC := len(fc) == 1 && fc[0] == "1"
	if len(fc) > 1 || (len(fc) == 1 && fc[0] != "1" && fc[0] != "") || gotFC != wantFC {
		x.Failf(fmt.Sprintf("X-From-Cache wrong for status %s", status), "X-From-Cache=%q with X-Httpcache-Status=%q", fc, status)
	}
	if fromStore && !validated304 {
		av := o.Header.Values("Age")
		if len(av) != 1 {
			x.Failf("not exactly one Age on a response from the store: "+path, "Age values %q", av)
			return
		}
		got, err := strconv.ParseInt(av[0], 10, 64)
		if err != nil {
			x.Failf("unparsable Age on a response from the store: "+path, "Age=%q", av[0])
			return
		}
		okAge := false
		ages := st.Ages(now)
		for _, a := range ages {
			if got >= a-1 && got <= a+1 {
				okAge = true
			}
			if a >= 1<<31 && got >= 1<<31 {
				okAge = true // both saturate: a cache may clamp at 2^31 (RFC 9111 §1.2.2)
			}
		}
		if !okAge {
			x.Failf(fmt.Sprintf("wrong Age on path %s (status %s)", path, status), "Age=%d but current_age per RFC 9111 §4.2.3 is %v (tolerated readings) ±1", got, ages)
		}
	}
}
