package checks

import (
	"bytes"
	"errors"
	"fmt"
	"os"
	"sync"
	"testing"

	"github.com/bartventer/httpcache/store/driver"
	"github.com/bartventer/httpcache/store/fscache"
	"github.com/bartventer/httpcache/store/memcache"
)

// TestStoreRace is the free-running pass for the backends (C15, C17): the C15 thread programs plus
// same-value concurrent Sets, on memcache, fscache and encrypted fscache, with real goroutines and no
// scheduler — meant for the -race build. Besides race reports it checks that every Get returns a written
// value in full and that concurrent encrypted writes of one value give different files.
func TestStoreRace(t *testing.T) {
	if os.Getenv("VERIF_C16_RACE") == "" {
		t.Skip("race pass not requested")
	}
	rounds := 40
	n := 0
	for _, backend := range []string{"memcache", "fscache", "fscache-enc"} {
		for _, prog := range c15Progs() {
			for _, prev := range []bool{false, true} {
				for round := 0; round < rounds; round++ {
					var conn driver.Conn
					dir := ""
					switch backend {
					case "memcache":
						conn = memcache.Open()
					default:
						var err error
						dir, err = os.MkdirTemp(os.Getenv("VERIF_SCRATCH"), "sr-")
						if err != nil {
							t.Fatal(err)
						}
						opts := []fscache.Option{fscache.WithBaseDir(dir)}
						if backend == "fscache-enc" {
							opts = append(opts, fscache.WithEncryption(c14EncKey))
						}
						conn, err = fscache.Open("app", opts...)
						if err != nil {
							t.Fatal(err)
						}
					}
					if prev {
						for _, th := range prog.threads {
							for _, op := range th {
								_ = conn.Set(op.key, c15V0)
							}
						}
					}
					var wg sync.WaitGroup
					gate := make(chan struct{})
					var mu sync.Mutex
					var problems []string
					for _, th := range prog.threads {
						th := th
						wg.Add(1)
						go func() {
							defer wg.Done()
							<-gate
							for _, op := range th {
								switch op.kind {
								case "set":
									// a Set that reports failure is not a violation of the property (it simply did not
									// take effect); only what Get returns is judged
									_ = conn.Set(op.key, append([]byte(nil), op.val...))
								case "del":
									if err := conn.Delete(op.key); err != nil && !errors.Is(err, driver.ErrNotExist) {
										mu.Lock()
										problems = append(problems, "Delete: "+err.Error())
										mu.Unlock()
									}
								case "get":
									v, err := conn.Get(op.key)
									ok := errors.Is(err, driver.ErrNotExist) || (err == nil && (bytes.Equal(v, c15V0) || bytes.Equal(v, c15V1) || bytes.Equal(v, c15V2)))
									if !ok {
										mu.Lock()
										problems = append(problems, fmt.Sprintf("Get returned %d bytes %q, err %v", len(v), clipB(v), err))
										mu.Unlock()
									}
								}
							}
						}()
					}
					close(gate)
					wg.Wait()
					if len(problems) > 0 {
						t.Errorf("C16RACE-PROBLEM backend=%s program=%s previous=%v: %v", backend, prog.name, prev, problems)
					}
					if dir != "" {
						os.RemoveAll(dir)
					}
					n++
				}
			}
		}
	}
	// concurrent encrypted writes of ONE value to different keys: all files must differ (fresh nonce each)
	for round := 0; round < 60; round++ {
		dir, _ := os.MkdirTemp(os.Getenv("VERIF_SCRATCH"), "sr-")
		conn, err := fscache.Open("app", fscache.WithBaseDir(dir), fscache.WithEncryption(c14EncKey))
		if err != nil {
			t.Fatal(err)
		}
		var wg sync.WaitGroup
		gate := make(chan struct{})
		for i := 0; i < 8; i++ {
			i := i
			wg.Add(1)
			go func() {
				defer wg.Done()
				<-gate
				_ = conn.Set(fmt.Sprintf("key-%d", i), c15V1)
			}()
		}
		close(gate)
		wg.Wait()
		seen := map[string]string{}
		for p, b := range c17Files(dir) {
			if len(b) >= 12 {
				if q, dup := seen[string(b[:12])]; dup {
					t.Errorf("C16RACE-PROBLEM two concurrent encrypted writes used the same nonce: %s and %s", p, q)
				}
				seen[string(b[:12])] = p
			}
		}
		for i := 0; i < 8; i++ {
			if v, err := conn.Get(fmt.Sprintf("key-%d", i)); err == nil && !bytes.Equal(v, c15V1) || (err != nil && !errors.Is(err, driver.ErrNotExist)) {
				t.Errorf("C16RACE-PROBLEM concurrent encrypted write not readable: key-%d: %d bytes, err %v", i, len(v), err)
			}
		}
		os.RemoveAll(dir)
		n++
	}
	fmt.Printf("C16RACE-DONE runs=%d\n", n)
}
