package checks

import (
	"fmt"
	"net/http"
	"strconv"
	"strings"
	"time"

	"verifharness/mc"
	"verifharness/oracle"
	"verifharness/world"
)

// C08 — validation results are written back: 304 freshens, 200 replaces.
func init() { register(&Check{ID: "C08", Run: runC08, ShardDepth: 3}) }

var c08Answers = []string{"304", "304+X-New", "304+max-age=20", "304+CL+hop", "304+CL+hop-lowercase", "304+CL+hop-two-lines", "304+two-vary-lines", "304-slow", "304-no-date", "304+two-cc-lines", "200-same-vary", "200-other-vary", "200-no-store", "500", "410-max-age=30", "404-max-age=30", "200-same-etag"}

func runC08(x *mc.X) {
	kind := mc.Pick(x, "stored.kind", []string{"max-age=10", "heuristic", "max-age=5,swr=100"})
	validators := mc.Pick(x, "stored.validators", []string{"etag", "lm", "both"})
	nOther := x.Choose("other-variants", 3)
	rounds := 2
	if x.Tier() == "thorough" {
		rounds = 3
	}
	w := world.New(world.Opt{})
	defer w.Close()
	// "two": every second exchange goes through a second transport over the same store (nothing a transport
	// remembers outside the store may matter)
	transports := mc.Pick(x, "transports", []string{"one", "two", "one, after an unrelated exchange"})
	w.Alternate = transports == "two"
	if transports == "one, after an unrelated exchange" {
		primeUnrelated(x, w)
	}
	lm := httpDate(w.Epoch.Add(-secs(100)))
	baseH := func(ccv string) [][2]string {
		h := H("Vary", "X-A", "X-Note", "first draft")
		h = hdrIf(h, "Cache-Control", ccv)
		if validators == "etag" || validators == "both" {
			h = append(h, [2]string{"ETag", `"v1"`})
		}
		if validators == "lm" || validators == "both" || kind == "heuristic" {
			h = append(h, [2]string{"Last-Modified", lm})
		}
		return h
	}
	ccv := map[string]string{"max-age=10": "max-age=10", "heuristic": "", "max-age=5,swr=100": "max-age=5, stale-while-revalidate=100"}[kind]
	// the other (long-lived) variants are stored before or after the variant under validation, one second apart,
	// so that the validated entry's reference is rewritten in the middle of the URL's index as well as at its end
	others := map[string]string{}
	storeOthers := func() {
		for i := 0; i < nOther; i++ {
			a := strconv.Itoa(i + 2)
			answer(w, RS{Status: 200, H: H("Vary", "X-A", "Cache-Control", "max-age=100000")})
			o := get(w, U, "X-A", a)
			logObs(x, "GET X-A="+a+" (long-lived variant)", o)
			others[a] = o.Tok
			world.Advance(secs(1))
		}
	}
	targetFirst := nOther > 0 && x.Choose("target-stored-first", 2) == 1
	if !targetFirst {
		storeOthers()
	}
	answer(w, RS{Status: 200, H: baseH(ccv)})
	o1 := get(w, U, "X-A", "1")
	logObs(x, fmt.Sprintf("GET X-A=1 (origin: 200 %v)", baseH(ccv)), o1)
	if targetFirst {
		world.Advance(secs(1))
		storeOthers()
	}
	if o1.Tok == "" {
		x.Failf("harness: no token", "%s", o1)
		return
	}
	tk := w.Origin.Toks[o1.Tok]
	ghost := &oracle.Stored{Status: 200, Header: tk.Header, ReqTime: tk.ReqTime, RespTime: tk.RespTime}
	cur := o1.Tok
	replaced := map[string]bool{}
	reqHdr := []string{"X-A", "1"}

	checkOthers := func(when string) {
		for a, tok := range others {
			answer(w, RS{Status: 200, H: H("Cache-Control", "no-store")})
			o := get(w, U, "X-A", a)
			logObs(x, "GET X-A="+a+" ("+when+")", o)
			if o.Panic != nil || o.Err != nil {
				continue
			}
			if o.Tok != tok || len(o.Calls) != 0 {
				x.Failf("another variant lost after "+when, "variant X-A=%s (token %s, still fresh) is no longer served from the store: %s", a, tok, o)
			}
		}
	}

	for r := 1; r <= rounds; r++ {
		life := oracle.MaxLife(ghost.Lifetimes())
		L := life.Num / life.Den
		age0 := oracle.MinAge(ghost.Ages(time.Now()))
		staleBy := mc.Pick(x, fmt.Sprintf("round%d.stale-by", r), []int64{1, 50})
		ans := mc.Pick(x, fmt.Sprintf("round%d.answer", r), c08Answers)
		wait := L - age0 + staleBy
		if wait < 0 {
			wait = 0
		}
		world.Advance(secs(wait))
		var h304 http.Header
		var c304 *world.Call
		var newTok string
		answerFn(w, func(o *world.Origin, c *world.Call) (*http.Response, error) {
			cond := c.Header.Get("If-None-Match") != "" || c.Header.Get("If-Modified-Since") != ""
			is304 := strings.HasPrefix(ans, "304")
			switch {
			case is304 && cond:
				hh := H("Vary", "X-A")
				switch ans {
				case "304+X-New":
					// a new field, and a stored field that the 304 carries with an empty value (present-but-empty replaces, too)
					hh = append(hh, [2]string{"X-New", fmt.Sprintf("n%d", r)}, [2]string{"X-Note", ""})
				case "304+max-age=20":
					hh = append(hh, [2]string{"Cache-Control", "max-age=20"})
				case "304+two-cc-lines": // a repeated field: both lines replace the stored field
					hh = append(hh, [2]string{"Cache-Control", "public"}, [2]string{"Cache-Control", "max-age=20"}, [2]string{"Link", "<a>; rel=x"}, [2]string{"Link", "<b>; rel=y"})
				case "304+two-vary-lines": // the Vary list of the 304 spans two field lines: both replace the stored field
					for i := range hh {
						if hh[i][0] == "Vary" {
							hh = append(hh[:i], hh[i+1:]...)
							break
						}
					}
					hh = append(hh, [2]string{"Vary", "X-A"}, [2]string{"Vary", "X-C"})
				case "304+CL+hop":
					hh = append(hh, [2]string{"Content-Length", "9999"}, [2]string{"Connection", "X-Hop"}, [2]string{"X-Hop", "h"}, [2]string{"Keep-Alive", "timeout=5"})
				case "304+CL+hop-two-lines": // every Connection field line nominates hop-by-hop fields
					hh = append(hh, [2]string{"Content-Length", "9999"}, [2]string{"Connection", "keep-alive"}, [2]string{"Connection", "X-Hop"}, [2]string{"X-Hop", "h"}, [2]string{"Keep-Alive", "timeout=5"})
				case "304+CL+hop-lowercase": // connection options are case-insensitive
					hh = append(hh, [2]string{"Content-Length", "9999"}, [2]string{"Connection", "x-hop, KEEP-ALIVE"}, [2]string{"X-Hop", "h"}, [2]string{"Keep-Alive", "timeout=5"})
				}
				var slow time.Duration
				if ans == "304-slow" { // the validation takes 4 s and its reply carries no Date: the age restarts from the exchange as a whole
					slow = 4 * time.Second
				}
				resp := o.Respond(c, RS{Status: 304, NoTok: true, H: hh, NoDate: ans == "304-no-date" || ans == "304-slow", Delay: slow})
				h304, c304 = resp.Header.Clone(), c
				if h304.Get("Date") == "" {
					// a recipient with a clock records the time of receipt as Date (RFC 9110 §6.6.1)
					h304.Set("Date", httpDate(time.Now()))
				}
				return resp, nil
			case ans == "200-other-vary":
				resp := o.Respond(c, RS{Status: 200, H: H("Vary", "X-B", "Cache-Control", "max-age=30", "ETag", `"v2"`)})
				newTok = resp.Header.Get("X-Tok")
				return resp, nil
			case ans == "410-max-age=30" || ans == "404-max-age=30": // a full, cacheable reply that happens to be an error status: it replaces the stored response all the same
				st := 410
				if ans[0:3] == "404" {
					st = 404
				}
				resp := o.Respond(c, RS{Status: st, H: H("Vary", "X-A", "Cache-Control", "max-age=30", "ETag", `"v2"`)})
				newTok = resp.Header.Get("X-Tok")
				return resp, nil
			case ans == "200-same-etag": // a full reply repeating the stored validators: it replaces the stored response like any other
				hh := H("Vary", "X-A", "Cache-Control", "max-age=30")
				if validators == "etag" || validators == "both" {
					hh = append(hh, [2]string{"ETag", `"v1"`})
				}
				if validators == "lm" || validators == "both" || kind == "heuristic" {
					hh = append(hh, [2]string{"Last-Modified", lm})
				}
				resp := o.Respond(c, RS{Status: 200, H: hh})
				newTok = resp.Header.Get("X-Tok")
				return resp, nil
			case ans == "200-no-store":
				return o.Respond(c, RS{Status: 200, H: H("Vary", "X-A", "Cache-Control", "no-store")}), nil
			case ans == "500":
				return o.Respond(c, RS{Status: 500}), nil
			}
			resp := o.Respond(c, RS{Status: 200, H: H("Vary", "X-A", "Cache-Control", "max-age=30", "ETag", `"v2"`)})
			newTok = resp.Header.Get("X-Tok")
			return resp, nil
		})
		o := get(w, U, reqHdr...)
		if ans == "304-slow" && len(o.BgCalls) > 0 {
			world.Advance(5 * time.Second) // a background validation is still at the origin: let it finish
			o.BgCalls = w.Origin.CallsSince(w.Origin.NCalls() - 1)
		}
		logObs(x, fmt.Sprintf("round %d: GET X-A=1 stale by %ds (origin answers %s)", r, staleBy, ans), o)
		for _, c := range o.BgCalls {
			x.Logf("    background origin: %s", c)
		}
		all := append(append([]*world.Call{}, o.Calls...), o.BgCalls...)
		if o.Panic != nil || len(all) != 1 {
			x.Note("round without exactly one validation: " + obsClass(o))
			return // validation did not happen as scripted (C02/C10/C20 own that)
		}
		bg := len(o.BgCalls) == 1
		path := "foreground"
		if bg {
			path = "background"
		}
		switch {
		case c304 != nil:
			ghost = ghost.ApplyNotModified(h304, c304.At, c304.DoneAt)
		case newTok != "" && ans != "200-no-store":
			replaced[cur] = true
			t2 := w.Origin.Toks[newTok]
			ghost = &oracle.Stored{Status: t2.Status, Header: t2.Header, ReqTime: t2.ReqTime, RespTime: t2.RespTime}
			cur = newTok
		default:
			// 500 / no-store / unconditional refetch: nothing is demanded of the validated variant
			checkOthers(fmt.Sprintf("%s %s", path, ans))
			x.Nontrivial(fmt.Sprintf("%s/%s/%s", kind, path, ans))
			if ans == "200-no-store" || ans == "500" {
				return
			}
			continue
		}
		// follow-up inside the new lifetime
		life = oracle.MaxLife(ghost.Lifetimes())
		L = life.Num / life.Den
		// what is left of the new lifetime: the age restarts from the validation exchange, which may itself have taken time
		rem := L - oracle.MaxAge(ghost.Ages(time.Now()))
		off := mc.Pick(x, fmt.Sprintf("round%d.follow-up-at", r), []int64{1, max(rem-2, 1)})
		if off+1 >= rem {
			x.Skip()
		}
		world.Advance(secs(off))
		answer(w, RS{Status: 200, H: H("Cache-Control", "no-store")})
		now := time.Now()
		f := get(w, U, reqHdr...)
		logObs(x, fmt.Sprintf("round %d: follow-up GET X-A=1 %ds after the %s validation", r, off, path), f)
		cls := fmt.Sprintf("%s/%s/%s", kind, path, ans)
		x.Nontrivial(cls)
		x.State(cls, fmt.Sprint(r, staleBy, off, nOther), obsClass(f), fmt.Sprint(f.Tok == cur))
		x.Note(path + "/" + ans + " -> follow-up " + obsClass(f))
		x.Sample(map[string]any{"stored": kind, "validators": validators, "other_variants": nOther, "round": r, "origin_answer": ans, "path": path, "follow_up_after_s": off, "observed": f.String()})
		if f.Panic != nil || f.Err != nil {
			return
		}
		if replaced[f.Tok] {
			x.Failf("replaced representation served again ("+path+" "+ans+")", "follow-up returned the replaced token %s: %s", f.Tok, f)
			return
		}
		if f.Tok != cur || len(f.Calls) != 0 || len(f.BgCalls) != 0 {
			x.Failf("validation result not written back ("+path+" "+ans+")", "follow-up %d s after the validation, inside the new lifetime of %d s, was not answered from the store with token %s and no origin contact: %s", off, L, cur, f)
			return
		}
		if c304 != nil {
			for k, v := range h304 {
				switch k {
				case "Content-Length", "Connection", "Keep-Alive", "X-Hop", "Date":
					continue
				}
				if strings.Join(f.Header.Values(k), "\x00") != strings.Join(v, "\x00") {
					x.Failf("304 field not replaced in the stored response ("+path+" "+ans+"): "+k, "field %s = %q on the follow-up, the 304 carried %q", k, f.Header.Values(k), v)
				}
			}
			if strings.HasPrefix(ans, "304+CL+hop") {
				if f.Header.Get("Content-Length") == "9999" || f.Header.Get("X-Hop") != "" || f.Header.Get("Keep-Alive") != "" || f.Header.Get("Connection") != "" {
					x.Failf("304 Content-Length / hop-by-hop fields merged into the stored response ("+path+")", "follow-up header: %v", f.Header)
				}
			}
			if got, err := strconv.ParseInt(f.Header.Get("Age"), 10, 64); err == nil {
				ok := false
				for _, a := range ghost.Ages(now) {
					if got >= a-1 && got <= a+1 {
						ok = true
					}
				}
				if !ok {
					x.Failf("age does not restart from the 304 ("+path+")", "Age=%d on the follow-up, expected %v (counted from the 304)", got, ghost.Ages(now))
				}
			}
		}
		checkOthers(fmt.Sprintf("%s %s", path, ans))
		if x.Failed() {
			return
		}
	}
}
