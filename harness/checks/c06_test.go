package checks

import (
	"bytes"
	"fmt"
	"io"
	"net/http"
	"strings"

	"verifharness/mc"
	"verifharness/oracle"
	"verifharness/world"
)

// C06 — responses that must not be stored never reach the store.
func init() { register(&Check{ID: "C06", Run: runC06, ShardDepth: 3}) }

var (
	c06RespCC = []string{"", "max-age=60", "no-store", "no-store, max-age=60", "public", "must-understand, max-age=60", "private", "private, max-age=60",
		`max-age=60, x-root="C:\\", no-store`, `x-q="a\", max-age=60", no-store, max-age=60`,
		"x1, x2, x3, x4, x5, x6, x7, x8, x9, x10, x11, x12, x13, x14, x15, x16, no-store, max-age=60", "max-age=60, x-rep, x-rep=1, x-rep, no-store"}
	c06Reqs = []string{"GET", "GET+no-store", "GET+Range", "GET+Range(items)", "GET+Range(Bytes)", "GET+If-None-Match", "GET+If-Modified-Since", "HEAD", "POST", "GET(empty Method)+Range", "GET+Range(on a second field line)", "GET(empty Method)", "GET+no-store+Pragma"}
)

func c06Statuses(tier string) []int {
	var s []int
	if tier == "thorough" {
		for c := 100; c <= 599; c++ {
			s = append(s, c)
		}
		return s
	}
	// quick: every registered class boundary, every code the cache names, and unassigned codes
	return []int{100, 101, 102, 103, 199, 200, 201, 202, 203, 204, 205, 206, 207, 209, 226, 299, 300, 301, 302, 303, 304, 305, 307, 308, 399,
		400, 401, 403, 404, 405, 410, 414, 418, 429, 451, 499, 500, 501, 502, 503, 504, 505, 599}
}

func runC06(x *mc.X) {
	mode := mc.Pick(x, "mode", []string{"status-product", "body-failure"})
	if mode == "body-failure" {
		runC06Body(x)
		return
	}
	status := mc.Pick(x, "resp.status", c06Statuses(x.Tier()))
	rcc := mc.Pick(x, "resp.cache-control", c06RespCC)
	expires := x.Choose("resp.expires", 2) == 1
	reqKind := mc.Pick(x, "request", c06Reqs)
	pre := mc.Pick(x, "store-state", []string{"empty", "fresh", "stale", "stale+swr", "dangling-index", "corrupt-entry", "stale-no-validator", "stale+swr, entry cut short"})

	w := world.New(world.Opt{})
	defer w.Close()
	oldTok := ""
	if pre != "empty" {
		ma := map[string]string{"fresh": "max-age=1000", "stale": "max-age=5", "stale+swr": "max-age=5, stale-while-revalidate=1000",
			"dangling-index": "max-age=1000", "corrupt-entry": "max-age=1000", "stale-no-validator": "max-age=5", "stale+swr, entry cut short": "max-age=5, stale-while-revalidate=1000"}[pre]
		ph := H("Cache-Control", ma, "ETag", `"old"`)
		if pre == "stale-no-validator" {
			ph = H("Cache-Control", ma)
		}
		answer(w, RS{Status: 200, H: ph})
		o0 := get(w, U)
		logObs(x, "prologue GET (origin: 200 "+ma+")", o0)
		oldTok = o0.Tok
		world.Advance(secs(30))
		if pre == "stale+swr, entry cut short" && len(o0.Ops) > 0 { // the stored entry lost the end of its body (it still parses)
			for _, k := range w.Conn.Keys() {
				if v, _ := w.Conn.Peek(k); k != o0.Ops[0].Key && len(v) > 8 {
					w.Conn.Poke(k, v[:len(v)-5])
				}
			}
		}
		if (pre == "dangling-index" || pre == "corrupt-entry") && len(o0.Ops) > 0 {
			idx := o0.Ops[0].Key // the key looked up first is the URL's index; the other key holds the entry
			for _, k := range w.Conn.Keys() {
				if k != idx {
					if pre == "dangling-index" {
						_ = w.Conn.Delete(k)
					} else {
						w.Conn.Poke(k, []byte("garbage\n"))
					}
				}
			}
		}
	}
	h := hdrIf(nil, "Cache-Control", rcc)
	if expires {
		h = append(h, [2]string{"Expires", httpDate(w.Epoch.Add(secs(100000)))})
	}
	// status 304: either the origin answers 304 whatever it is asked (a broken origin), or only to conditional requests
	realistic304 := status == 304 && x.Choose("origin-answers-304-only-to-conditional-requests", 2) == 1
	spec := RS{Status: status, H: h}
	if status == 304 || status == 204 || status < 200 {
		// bodiless statuses still get a token in X-Tok
		spec.Body = []byte{}
	}
	answerFn(w, func(o *world.Origin, c *world.Call) (*http.Response, error) {
		sp := spec
		if status == 304 && c.Header.Get("If-None-Match") == "" && c.Header.Get("If-Modified-Since") == "" && x.Devs() >= 0 && realistic304 {
			sp.Status, sp.Body = 200, nil // an origin answers 304 only to a conditional request
		}
		return o.Respond(c, sp), nil
	})
	req := world.Req("GET", U)
	switch reqKind {
	case "GET+no-store":
		req.Header.Set("Cache-Control", "no-store")
	case "GET+Range":
		req.Header.Set("Range", "bytes=0-3")
	case "GET+Range(items)":
		req.Header.Set("Range", "items=0-3")
	case "GET+Range(Bytes)":
		req.Header.Set("Range", "Bytes=0-3")
	case "GET+Range(on a second field line)":
		req.Header["Range"] = []string{"", "bytes=0-3"}
	case "GET(empty Method)":
		req.Method = ""
	case "GET+no-store+Pragma": // Pragma matters only when there is no Cache-Control (RFC 9111 §5.4)
		req.Header.Set("Cache-Control", "no-cache, no-store")
		req.Header.Set("Pragma", "no-cache")
	case "GET(empty Method)+Range":
		req.Method = ""
		req.Header.Set("Range", "bytes=0-3")
	case "GET+If-None-Match":
		req.Header.Set("If-None-Match", `"client"`)
	case "GET+If-Modified-Since":
		req.Header.Set("If-Modified-Since", httpDate(w.Epoch.Add(-secs(500))))
	case "HEAD":
		req.Method = "HEAD"
	case "POST":
		req.Method = "POST"
	}
	o1 := w.Do(req)
	logObs(x, fmt.Sprintf("%s (origin: %d CC=%q expires=%v)", reqKind, status, rcc, expires), o1)
	tok := ""
	if len(o1.Calls) > 0 {
		tok = o1.Calls[0].RespTok
		status = o1.Calls[0].RespCode // (differs from the chosen one only when the origin answers 304 to conditional requests only)
	} else if len(o1.BgCalls) > 0 {
		tok = o1.BgCalls[0].RespTok // the response to the background revalidation
		status = o1.BgCalls[0].RespCode
	}
	world.Advance(secs(1))
	answer(w, RS{Status: 200, H: H("Cache-Control", "no-store")})
	o2 := get(w, U)
	logObs(x, "plain GET 1 s later", o2)

	ccs := oracle.CC(oracle.ParseCC(http.Header{"Cache-Control": {rcc}}))
	explicit := ccs.Has("max-age") || expires
	unassigned := map[int]bool{209: true, 299: true, 399: true, 499: true, 599: true}
	var why string
	switch {
	case tok == "":
		why = ""
	case status == 304 && (pre == "stale" || pre == "stale+swr" || pre == "stale-no-validator" || pre == "stale+swr, entry cut short") && !ccs.Has("no-store") && reqKind != "GET+no-store":
		why = "" // a 304 answering the cache's own validation request freshens the stored response (C08), it is not stored itself
	case ccs.Has("no-store") || reqKind == "GET+no-store" || reqKind == "GET+no-store+Pragma":
		why = "no-store"
	case strings.Contains(reqKind, "Range") || reqKind == "HEAD" || reqKind == "POST":
		why = "not a plain GET"
	case status < 200 || status == 206 || status == 304:
		why = fmt.Sprintf("status %d", status)
	case ccs.Has("must-understand") && unassigned[status]:
		why = "must-understand with a status that cannot be understood"
	case !explicit && !ccs.Has("public") && !oracle.HeuristicStatus(status):
		why = "no explicit freshness and status not heuristically cacheable"
	}
	stored := false
	for _, ops := range [][]world.Op{o1.Ops, o2.Ops} {
		for _, op := range ops {
			if op.Kind == "set" && tok != "" && bytes.Contains(op.Val, []byte(tok)) {
				stored = true
			}
		}
	}
	replayed := tok != "" && o2.Err == nil && (o2.Tok == tok || o2.HdrTok == tok) && len(o2.Calls) == 0
	cls := fmt.Sprintf("%dxx/%s/%s/%s", status/100, reqKind, pre, ifs(why != "", "forbidden"))
	x.State(fmt.Sprint(status), rcc, fmt.Sprint(expires), reqKind, pre, fmt.Sprint(stored, replayed), obsClass(o2))
	x.Note(fmt.Sprintf("forbidden=%v stored=%v", why != "", stored))
	if why != "" {
		x.Nontrivial(cls + "/" + why)
		x.Sample(map[string]any{"status": status, "response_cache_control": rcc, "expires": expires, "request": reqKind, "store_state": pre, "must_not_store_because": why, "written_to_store": stored, "second_get": o2.String()})
		if stored || replayed {
			x.Failf(fmt.Sprintf("stored although forbidden (%s) request=%s status=%d store=%s", why, reqKind, status, pre),
				"response %s (status %d, Cache-Control %q) must not be stored (%s) but written=%v, later served from the store=%v (%s)", tok, status, rcc, why, stored, replayed, o2)
		}
	}
	if realistic304 && (reqKind == "GET" || reqKind == "GET+no-store" || reqKind == "GET(empty Method)" || reqKind == "GET+no-store+Pragma") && o1.Err == nil && o1.Panic == nil && o1.Status == 304 {
		x.Failf(fmt.Sprintf("unconditional GET answered 304 (request=%s store=%s)", reqKind, pre), "the client sent no precondition, the origin answers 304 only to conditional requests, yet the client received %s", o1)
	}
	if o2.Err == nil && o2.Panic == nil && o2.Status == 304 {
		x.Failf(fmt.Sprintf("unconditional GET answered 304 (after %s status=%d store=%s)", reqKind, status, pre), "plain GET without conditional headers received %s", o2)
	}
	_ = oldTok
}

// runC06Body: the origin's body fails at every byte position.
func runC06Body(x *mc.X) {
	kind := mc.Pick(x, "failure", []string{"read-error", "short-of-content-length", "short-unknown-length-error", "one-read-error-then-the-rest"})
	n := mc.Pick(x, "body-len", []int{1, 24, 4097})
	ks := []int{0, 1, n / 2, n - 1}
	if n == 24 || x.Tier() == "thorough" {
		ks = nil
		for k := 0; k < n; k++ {
			ks = append(ks, k)
		}
	}
	seen := map[int]bool{}
	var uniq []int
	for _, k := range ks {
		if k >= 0 && k < n && !seen[k] {
			seen[k] = true
			uniq = append(uniq, k)
		}
	}
	k := mc.Pick(x, "cut-at", uniq)
	pre := mc.Pick(x, "store-state", []string{"empty", "stale"})
	w := world.New(world.Opt{})
	defer w.Close()
	if pre == "stale" {
		answer(w, RS{Status: 200, H: H("Cache-Control", "max-age=5", "ETag", `"old"`)})
		logObs(x, "prologue GET", get(w, U))
		world.Advance(secs(30))
	}
	spec := RS{Status: 200, H: H("Cache-Control", "max-age=1000"), Pad: n}
	switch kind {
	case "read-error":
		spec.BodyErr, spec.FailAt = io.ErrUnexpectedEOF, k
	case "short-of-content-length":
		spec.BodyErr, spec.FailAt = io.EOF, k // clean EOF after k of n announced bytes
	case "short-unknown-length-error":
		spec.BodyErr, spec.FailAt, spec.UnknownCL = io.ErrUnexpectedEOF, k, true
	case "one-read-error-then-the-rest": // the failure is not sticky: a second attempt to read would get the remaining bytes
		spec.BodyErr, spec.FailAt, spec.UnknownCL, spec.FailOnce = errTimeoutLike{}, k, true, true
	}
	answer(w, spec)
	o1 := get(w, U)
	logObs(x, fmt.Sprintf("GET (origin body of %d bytes fails after %d: %s)", n, k, kind), o1)
	tok := ""
	if len(o1.Calls) > 0 {
		tok = o1.Calls[0].RespTok
	}
	world.Advance(secs(1))
	answer(w, RS{Status: 200, H: H("Cache-Control", "no-store")})
	o2 := get(w, U)
	logObs(x, "plain GET 1 s later", o2)
	stored := false
	for _, op := range o1.Ops {
		if op.Kind == "set" && bytes.Contains(op.Val, []byte(tok)) {
			stored = true
		}
	}
	replayed := o2.Err == nil && o2.HdrTok == tok && len(o2.Calls) == 0
	x.Nontrivial(fmt.Sprintf("body/%s/%d/%s", kind, n, pre))
	x.State("body", kind, fmt.Sprint(n, k), pre, fmt.Sprint(stored, replayed))
	x.Sample(map[string]any{"body_len": n, "cut_at": k, "failure": kind, "store_state": pre, "written_to_store": stored, "second_get": o2.String()})
	if pre == "empty" {
		for _, op := range o1.Ops {
			if op.Kind == "set" {
				x.Failf("something is written to the store although the body could not be read completely ("+kind+")", "Set(%q) = %q", op.Key, clipB(op.Val))
				break
			}
		}
	}
	if tok != "" && (stored || replayed) {
		x.Failf("incompletely read body stored ("+kind+")", "body of %d bytes failed after %d (%s) but written=%v, later served from the store=%v (%s)", n, k, kind, stored, replayed, o2)
	}
}

type errTimeoutLike struct{}

func (errTimeoutLike) Error() string   { return "verif: read timed out (try again)" }
func (errTimeoutLike) Timeout() bool   { return true }
func (errTimeoutLike) Temporary() bool { return true }
