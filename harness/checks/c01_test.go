package checks

import (
	"fmt"
	"net/http"
	"sort"
	"strings"
	"time"

	"verifharness/mc"
	"verifharness/oracle"
	"verifharness/world"
)

// C01 — a stale stored response is never served without explicit permission.
func init() { register(&Check{ID: "C01", Run: runC01, ShardDepth: 3}) }

type c01Resp struct {
	maxAge, expires, lm, date, age string
	status                         int
	delay                          int64
	swr                            string
	extraCC                        string
}

// build returns the origin response spec (dates relative to the virtual now at response time).
func (r c01Resp) spec(now time.Time) RS {
	var h [][2]string
	ccv := cc(r.extraCC, ifs(r.maxAge != "", "max-age="+r.maxAge), ifs(r.swr != "", "stale-while-revalidate="+r.swr))
	h = hdrIf(h, "Cache-Control", ccv)
	s := RS{Status: r.status, Delay: secs(r.delay)}
	respAt := now.Add(secs(r.delay))
	var date time.Time
	switch r.date {
	case "now":
		date = respAt
	case "-5":
		date = respAt.Add(-secs(5))
		s.DateOff = -secs(5)
	case "+5":
		date = respAt.Add(secs(5))
		s.DateOff = secs(5)
	case "absent":
		s.NoDate = true
		date = respAt
	case "invalid":
		s.RawDate = "yesterday-ish"
		date = respAt
	case "year 1700": // a valid HTTP-date three centuries back: the apparent age exceeds what a Duration can hold
		s.RawDate = "Fri, 01 Jan 1700 00:00:00 GMT"
		date = time.Date(1700, 1, 1, 0, 0, 0, 0, time.UTC)
	}
	switch r.expires {
	case "":
	case "0":
		h = append(h, [2]string{"Expires", "0"})
	case "empty": // present but empty: an invalid date, i.e. already expired (RFC 9111 §5.3) — not "no Expires"
		h = append(h, [2]string{"Expires", ""})
	case "0+3600": // two field lines, the first one invalid: the response is already expired (RFC 9111 §5.3), whatever follows
		h = append(h, [2]string{"Expires", "0"}, [2]string{"Expires", httpDate(date.Add(secs(3600)))})
	default:
		var off int64
		fmt.Sscan(r.expires, &off)
		h = append(h, [2]string{"Expires", httpDate(date.Add(secs(off)))})
	}
	if r.lm == "epoch" { // exactly the Unix epoch: a valid date like any other
		h = append(h, [2]string{"Last-Modified", "Thu, 01 Jan 1970 00:00:00 GMT"})
	} else if r.lm != "" {
		var off int64
		fmt.Sscan(r.lm, &off)
		h = append(h, [2]string{"Last-Modified", httpDate(date.Add(secs(off)))})
	}
	h = hdrIf(h, "Age", r.age)
	h = append(h, [2]string{"ETag", `"v1"`})
	s.H = h
	return s
}

func ifs(c bool, s string) string {
	if c {
		return s
	}
	return ""
}

var (
	c01MaxAgeQ = []string{"", "0", "10", "x", "2147483648", "9223372037", "18446744074", "1, max-age=3600"}
	c01Expires = []string{"", "10", "0s", "-10", "0", "0+3600", "empty"}
	c01LM      = []string{"", "-100", "100", "-1500000000"}
	c01Date    = []string{"now", "-5", "+5", "absent", "invalid", "year 1700"}
	c01Age     = []string{"", "0", "5", "15", "x", "9223372037", "5, 7", "9223372036854775808", "99999999999999999999"}
	c01Status  = []int{200, 404, 302}
	c01ReqDir  = []string{"", "max-age=5", "max-age=100", "min-fresh=5", "max-stale", "max-stale=0", "max-stale=5", "only-if-cached"}
)

func runC01(x *mc.X) {
	var r c01Resp
	r.maxAge = mc.Pick(x, "resp.max-age", c01MaxAgeQ)
	r.expires = mc.Pick(x, "resp.expires", c01Expires)
	if r.expires == "0s" {
		r.expires = "0 " // Expires == Date (offset 0); distinct from the literal "0"
	}
	r.age = mc.Pick(x, "resp.age", c01Age)
	r.lm = mc.Pick(x, "resp.last-modified", c01LM)
	r.date = mc.Pick(x, "resp.date", c01Date)
	r.status = mc.Pick(x, "resp.status", c01Status)
	r.delay = mc.Pick(x, "resp.delay", []int64{0, 5})
	r.swr = mc.Pick(x, "resp.swr", []string{"", "5"})
	reqDir := mc.Pick(x, "req.directive", c01ReqDir)
	threeStep := false
	if x.Tier() == "thorough" || (r.age == "" && r.date == "now" && r.status == 200 && r.delay == 0 && r.swr == "") {
		// quick: the validation round in between is explored on the sub-alphabet without Age / Date skew / delay
		threeStep = x.Choose("three-step", 2) == 1
	}

	// the zone of the process (a recipient without a Date has to stamp the response itself), and an unrelated earlier
	// exchange whose response nominates Cache-Control and Expires as hop-by-hop for itself
	if r.date == "absent" && r.status == 200 && r.delay == 0 {
		if mc.Pick(x, "process-zone", []string{"UTC-5", "UTC+10"}) == "UTC+10" {
			old := time.Local
			time.Local = time.FixedZone("UTC+10", 10*3600)
			defer func() { time.Local = old }()
		}
	}
	primed := false
	if x.Tier() == "thorough" || (r.status == 200 && r.delay == 0 && r.swr == "" && reqDir == "" && r.date == "now" && r.age == "") {
		primed = x.Choose("after-an-unrelated-exchange", 2) == 1
	}
	// an extension directive whose quoted argument ends in an escaped backslash, in front of the directives that matter
	if x.Tier() == "thorough" || (r.status == 200 && r.delay == 0 && r.swr == "" && reqDir == "" && r.date == "now" && r.age == "") {
		r.extraCC = mc.Pick(x, "resp.extension-directive-first", []string{"", `x-root="C:\\"`, `x-q="a\"b, max-age=99999"`, "x-tab=\"a\tb\",\tpublic"}) // (a horizontal tab is legal inside a quoted string and as whitespace after a comma)
	}
	// the protocol version of the origin's response says nothing about its age or lifetime
	proto := ""
	if x.Tier() == "thorough" || (r.status == 200 && r.delay == 0 && r.swr == "" && reqDir == "") {
		proto = mc.Pick(x, "resp.protocol", []string{"", "HTTP/2.0", "HTTP/1.0"})
	}

	w := world.New(world.Opt{})
	defer w.Close()
	if x.Tier() == "thorough" && reqDir == "" && r.swr == "" { // every second exchange through a second transport over the same store
		w.Alternate = mc.Pick(x, "transports", []string{"one", "two"}) == "two"
	}
	start := time.Now()
	if r.expires == "0 " {
		r.expires = "+0"
	}
	if primed {
		primeUnrelated(x, w)
		start = time.Now()
	}
	spec := r.spec(start)
	spec.Proto = proto
	answer(w, spec)
	o1 := get(w, U)
	logObs(x, fmt.Sprintf("GET (origin answers %d %v)", spec.Status, spec.H), o1)
	if o1.Tok == "" {
		x.Failf("harness: no token", "first exchange returned no token: %s", o1)
		return
	}
	tk := w.Origin.Toks[o1.Tok]
	st := &oracle.Stored{Status: tk.Status, Header: tk.Header, ReqTime: tk.ReqTime, RespTime: tk.RespTime}

	lifes := st.Lifetimes()
	maxLife := oracle.MaxLife(lifes)
	a0 := oracle.MinAge(st.Ages(time.Now()))
	L := maxLife.Num / maxLife.Den
	// elapsed times are chosen around the oracle's own freshness boundary
	cands := []int64{0, L - a0 - 1, L - a0, L - a0 + 1, L - a0 + 5, L - a0 + 6, 3600, 1<<31 - 2}
	var el []int64
	seen := map[int64]bool{}
	for _, c := range cands {
		if c < 0 || c > 1<<31-2 || seen[c] {
			continue
		}
		seen[c] = true
		el = append(el, c)
	}
	sort.Slice(el, func(i, j int) bool { return el[i] < el[j] })
	elapsed := mc.Pick(x, "elapsed", el)
	world.Advance(secs(elapsed))

	if threeStep {
		// a validation round in between: origin answers 304 (freshening) — the ghost is updated per §4.3.4
		kind := mc.Pick(x, "mid.answer", []string{"304", "304+max-age=20", "200", "200+expires=5", "200+heuristic=5", "304+age=100-no-date", "304+two-cache-control-lines", "304 that takes 5 s"})
		var mid RS
		switch kind {
		case "304+age=100-no-date": // the validation reply went through an upstream cache and carries no Date
			mid = RS{Status: 304, NoTok: true, NoDate: true, H: H("ETag", `"v1"`, "Age", "100")}
		case "200+expires=5": // a replacement whose lifetime comes from Expires - Date
			mid = RS{Status: 200, H: H("Expires", httpDate(time.Now().Add(secs(5))), "ETag", `"v2"`)}
		case "200+heuristic=5": // a replacement whose lifetime is heuristic (10% of 50 s)
			mid = RS{Status: 200, H: H("Last-Modified", httpDate(time.Now().Add(-secs(50))), "ETag", `"v2"`)}
		case "304":
			mid = RS{Status: 304, NoTok: true, H: H("ETag", `"v1"`)}
		case "304 that takes 5 s": // the response delay of the validation is part of the freshened response's age (RFC 9111 §4.2.3)
			mid = RS{Status: 304, NoTok: true, Delay: secs(5), H: H("ETag", `"v1"`)}
		case "304+max-age=20":
			mid = RS{Status: 304, NoTok: true, H: H("ETag", `"v1"`, "Cache-Control", "max-age=20")}
		case "304+two-cache-control-lines": // both lines replace the stored field: the lifetime is 0, not heuristic
			mid = RS{Status: 304, NoTok: true, H: H("ETag", `"v1"`, "Cache-Control", "public", "Cache-Control", "max-age=0", "Last-Modified", httpDate(time.Now().Add(-secs(1000000))))}
		case "200":
			mid = RS{Status: 200, H: H("Cache-Control", "max-age=20", "ETag", `"v2"`)}
		}
		answer(w, mid)
		om := get(w, U, "Cache-Control", "no-cache")
		logObs(x, "GET no-cache (origin answers "+kind+")", om)
		if len(om.Calls) != 1 {
			return // C02's business
		}
		c := om.Calls[0]
		if strings.HasPrefix(kind, "200") {
			if om.Tok == "" {
				return
			}
			t2 := w.Origin.Toks[om.Tok]
			st = &oracle.Stored{Status: t2.Status, Header: t2.Header, ReqTime: t2.ReqTime, RespTime: t2.RespTime}
			o1 = om
		} else {
			// the 304's header as the cache saw it (Date added by the origin script)
			h304 := http.Header{}
			for _, kv := range mid.H {
				h304.Add(kv[0], kv[1])
			}
			h304.Set("Date", httpDate(c.DoneAt)) // sent by the origin script, or assigned on receipt when absent
			st = st.ApplyNotModified(h304, c.At, c.DoneAt)
		}
		lifes = st.Lifetimes()
		maxLife = oracle.MaxLife(lifes)
		L2 := maxLife.Num / maxLife.Den
		e2 := mc.Pick(x, "elapsed2", []int64{0, max(L2-1, 0), L2, L2 + 1, L2 + 6})
		world.Advance(secs(e2))
	}

	// the origin would answer anything new with a distinct token
	answer(w, RS{Status: 200, H: H("Cache-Control", "no-store")})
	var hdr []string
	if reqDir != "" {
		hdr = []string{"Cache-Control", reqDir}
	}
	now := time.Now()
	o2 := get(w, U, hdr...)
	logObs(x, fmt.Sprintf("GET after %ds Cache-Control=%q", elapsed, reqDir), o2)

	ages := st.Ages(now)
	minAge := oracle.MinAge(ages)
	fresh := maxLife.FreshAt(minAge)
	x.State(maxLife.Why, fmt.Sprint(fresh), reqDir, r.swr, obsClass(o2), fmt.Sprint(o2.Tok == o1.Tok))
	x.Note(obsClass(o2))
	if o2.Panic != nil || o2.Err != nil {
		return
	}
	servedFromStore := o2.Tok != "" && o2.Tok == o1.Tok && len(o2.Calls) == 0
	if !servedFromStore {
		return
	}
	x.Nontrivial(fmt.Sprintf("%s/fresh=%v/req=%s/swr=%s", maxLife.Why, fresh, reqDir, r.swr))
	x.Sample(map[string]any{"origin_header": spec.H, "status": r.status, "delay_s": r.delay, "elapsed_s": elapsed, "request_directive": reqDir,
		"oracle_age": ages, "oracle_lifetime": fmt.Sprintf("%d/%d s (%s)", maxLife.Num, maxLife.Den, maxLife.Why), "observed": o2.String()})
	if fresh {
		return
	}
	if minAge >= 1<<31 && maxLife.Num/maxLife.Den >= 1<<31 {
		return // both saturate (RFC 9111 §1.2.2 lets a cache clamp either at 2^31): their order is not defined
	}
	staleBy := maxLife.StaleBy(minAge)
	rcc := oracle.CC(oracle.ParseCC(http.Header{"Cache-Control": {reqDir}}))
	if rcc.Has("only-if-cached") {
		return
	}
	if d, ok := rcc.Get("max-stale"); ok {
		if !d.HasArg {
			return
		}
		if n, ok := oracle.ParseDelta(d.Arg); ok && staleBy <= n {
			return
		}
	}
	scc := oracle.CC(oracle.ParseCC(st.Header))
	if vals, ok := scc.Delta("stale-while-revalidate"); ok && len(vals) == 1 && staleBy <= vals[0] {
		return
	}
	x.Failf(fmt.Sprintf("stale served: lifetime(%s) max-age=%q age=%q swr=%q", maxLife.Why, r.maxAge, r.age, r.swr),
		"served from the store without origin contact at current_age %v s (every reading) with freshness lifetime %d/%d s (%s); stale by >= %d s; request Cache-Control=%q, stored SWR=%q; observed %s",
		ages, maxLife.Num, maxLife.Den, maxLife.Why, staleBy, reqDir, r.swr, o2)
}
