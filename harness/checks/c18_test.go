package checks

import (
	"fmt"
	"net/http"
	"sort"
	"strings"

	"verifharness/mc"
	"verifharness/world"
)

// C18 — only-if-cached never touches the network.
func init() { register(&Check{ID: "C18", Run: runC18, ShardDepth: 2}) }

var c18States = []string{"empty", "fresh", "stale", "stale+must-revalidate", "no-cache", `no-cache="X-Secret"`,
	"stale+swr", "stale+sie", "other-variant", "vary-star", "bad-entry", "bad-index", "get-error", "fresh+must-revalidate", "stale-heuristic", "fresh+immutable", "stale+immutable", "earlier reply was no-store", "other-variant, Vary list with * first"}

func runC18(x *mc.X) {
	// (chosen first, so that in depth-first order a primed execution is not immediately preceded by the very
	// same only-if-cached request: state that an implementation keeps per process would otherwise be re-primed)
	primed := x.Choose("primed-by-similar-request", 2) == 1
	state := mc.Pick(x, "state", c18States)
	extra := x.Choose("extra-directives", 64)
	spelling := mc.Pick(x, "spelling", []string{"canonical", "upper", "second-line", "extension-mixed", "after-quoted-backslash", "after-16-extensions", "after-a-repeated-directive", "after-a-numeral-beyond-int64", "after-an-empty-line"})
	// the directive governs every request, not only the ones the cache can answer (RFC 9111 §5.2.1.7)
	kind := mc.Pick(x, "request-kind", []string{"GET", "HEAD", "GET+Range", "POST", "GET (Method left empty)", "GET+If-None-Match"})
	if kind != "GET" && extra != 0 && x.Tier() != "thorough" {
		x.Skip()
	}
	w := world.New(world.Opt{})
	defer w.Close()

	// --- prologue: bring the store into the chosen state through the transport itself.
	elapsed := int64(10)
	var h [][2]string
	reqHdr := []string{}
	switch state {
	case "empty":
	case "fresh":
		h = H("Cache-Control", "max-age=100", "ETag", `"v1"`)
	case "fresh+must-revalidate":
		h = H("Cache-Control", "max-age=100, must-revalidate", "ETag", `"v1"`)
	case "fresh+immutable":
		h = H("Cache-Control", "max-age=100, immutable", "ETag", `"v1"`)
	case "stale+immutable":
		h = H("Cache-Control", "max-age=5, immutable", "ETag", `"v1"`)
	case "stale":
		h = H("Cache-Control", "max-age=5", "ETag", `"v1"`)
	case "stale-heuristic":
		h = H("Last-Modified", httpDate(w.Epoch.Add(-secs(50))), "ETag", `"v1"`) // heuristic lifetime 5 s
	case "stale+must-revalidate":
		h = H("Cache-Control", "max-age=5, must-revalidate", "ETag", `"v1"`)
	case "no-cache":
		h = H("Cache-Control", "max-age=100, no-cache", "ETag", `"v1"`)
	case `no-cache="X-Secret"`:
		h = H("Cache-Control", `max-age=100, no-cache="X-Secret"`, "ETag", `"v1"`, "X-Secret", "s3cr3t")
	case "stale+swr":
		h = H("Cache-Control", "max-age=5, stale-while-revalidate=100", "ETag", `"v1"`)
	case "stale+sie":
		h = H("Cache-Control", "max-age=5, stale-if-error=100", "ETag", `"v1"`)
	case "other-variant":
		h = H("Cache-Control", "max-age=100", "Vary", "X-A")
		reqHdr = []string{"X-A", "1"}
	case "vary-star":
		h = H("Cache-Control", "max-age=100", "Vary", "*")
	case "other-variant, Vary list with * first":
		h = H("Cache-Control", "max-age=100", "Vary", "*", "Vary", "X-A")
		reqHdr = []string{"X-A", "1"}
	case "earlier reply was no-store": // nothing is stored, but the cache has seen the resource
		h = H("Cache-Control", "no-store")
	case "bad-entry", "bad-index", "get-error":
		h = H("Cache-Control", "max-age=100", "ETag", `"v1"`)
	}
	var stored *world.Obs
	if state != "empty" {
		answer(w, RS{Status: 200, H: h})
		stored = get(w, U, reqHdr...)
		logObs(x, "prologue GET", stored)
		if state == "earlier reply was no-store" {
			stored = nil // (nothing may be stored: any response without origin contact other than a 504 is a violation)
		} else if stored.Tok == "" || !strings.Contains(w.Conn.Snapshot(), stored.Tok) {
			x.Failf("harness: prologue did not store", "state %s: prologue response not stored", state)
			return
		}
		world.Advance(secs(elapsed))
	}
	switch state {
	case "bad-entry", "bad-index":
		// the index key is the key of the first Get of an exchange; the entry key is the other one.
		idx := stored.Ops[0].Key
		for _, k := range w.Conn.Keys() {
			if (k == idx) == (state == "bad-index") {
				w.Conn.Poke(k, []byte("\x00garbage"))
			}
		}
	case "get-error":
		w.Conn.Fault = func(op *world.Op) (bool, []byte, error) {
			if op.Kind == "get" {
				return true, nil, world.ErrInjected
			}
			return false, nil, nil
		}
	}

	// --- the only-if-cached request
	extras := []string{"no-cache", "max-age=0", "max-stale", "min-fresh=5", "no-store", "min-fresh=1000"}
	var ds []string
	for i, d := range extras {
		if extra&(1<<i) != 0 {
			ds = append(ds, d)
		}
	}
	req := world.Req("GET", U)
	switch kind {
	case "HEAD", "POST":
		req.Method = kind
	case "GET+Range":
		req.Header.Set("Range", "bytes=0-3")
	case "GET (Method left empty)":
		req.Method = ""
	case "GET+If-None-Match":
		req.Header.Set("If-None-Match", `"client"`)
	}
	oic := "only-if-cached"
	switch spelling {
	case "canonical":
		req.Header.Set("Cache-Control", cc(append([]string{oic}, ds...)...))
	case "upper":
		req.Header.Set("Cache-Control", cc(append(ds, "Only-If-Cached")...))
	case "second-line":
		if len(ds) == 0 {
			req.Header.Add("Cache-Control", "foo")
		} else {
			req.Header.Add("Cache-Control", cc(ds...))
		}
		req.Header.Add("Cache-Control", oic)
	case "extension-mixed":
		req.Header.Set("Cache-Control", cc(append(append([]string{`foo="a,b"`}, ds...), oic, "bar=1")...))
	case "after-16-extensions":
		var ext []string
		for i := 1; i <= 16; i++ {
			ext = append(ext, fmt.Sprintf("x%d", i))
		}
		req.Header.Set("Cache-Control", cc(append(append(ext, ds...), oic)...))
	case "after-a-repeated-directive":
		req.Header.Add("Cache-Control", cc(append([]string{"x-rep", "x-rep=1"}, ds...)...))
		req.Header.Add("Cache-Control", cc("x-rep", oic))
	case "after-a-numeral-beyond-int64": // saturates (RFC 9111 §1.2.2); what follows still counts
		req.Header.Set("Cache-Control", cc(append(append([]string{"x-n=99999999999999999999", "max-stale=99999999999999999999", `min-fresh="00000000000000000000"`}, ds...), oic)...))
	case "after-an-empty-line":
		req.Header.Add("Cache-Control", "")
		req.Header.Add("Cache-Control", cc(append(ds, oic)...))
	case "after-quoted-backslash": // a quoted-string whose last character is an escaped backslash, and one with an escaped quote
		req.Header.Set("Cache-Control", cc(append(append([]string{`root="C:\\"`, `q="a\"b"`}, ds...), oic)...))
	}
	if primed {
		// the same client just sent a request whose Cache-Control equals this one's first field line (without
		// only-if-cached), to another resource — nothing of that may carry over
		first := req.Header.Values("Cache-Control")[0]
		first = strings.TrimSuffix(strings.TrimSuffix(strings.ReplaceAll(first, "only-if-cached, ", ""), ", only-if-cached"), "only-if-cached")
		answer(w, RS{Status: 200, H: H("Cache-Control", "no-store")})
		pr := world.Req("GET", "http://example.com/elsewhere")
		if strings.TrimSpace(first) != "" {
			pr.Header.Set("Cache-Control", first)
		}
		logObs(x, fmt.Sprintf("priming GET elsewhere Cache-Control=%q", first), w.Do(pr))
	}
	// the origin would answer with a fresh, storable 200 — any contact is visible.
	answer(w, RS{Status: 200, H: H("Cache-Control", "max-age=100", "ETag", `"v2"`)})
	n0 := w.Origin.NCalls()
	o := w.Do(req)
	logObs(x, fmt.Sprintf("GET Cache-Control=%q", req.Header.Values("Cache-Control")), o)
	world.Advance(secs(30)) // background work, if any, becomes visible
	calls := w.Origin.CallsSince(n0)
	x.Nontrivial(state + "/" + strings.Join(ds, "+") + ifs(kind != "GET", "/"+kind))
	x.State(state, kind, obsClass(o), fmt.Sprint(len(calls)))
	x.Note(obsClass(o))
	x.Sample(map[string]any{"state": state, "request_cache_control": req.Header.Values("Cache-Control"), "observed": o.String(), "origin_calls": len(calls)})

	if o.Panic != nil {
		return // C10's business
	}
	if len(calls) > 0 {
		x.Failf(fmt.Sprintf("origin contacted: state=%s extras=%s spelling=%s%s", state, sigExtras(ds), spelling, ifs(kind != "GET", " request="+kind)),
			"only-if-cached request caused %d origin call(s): %v", len(calls), calls[0])
		return
	}
	if o.Err != nil {
		return
	}
	if o.Status == http.StatusGatewayTimeout && o.Tok == "" {
		return
	}
	if kind == "HEAD" && stored != nil && len(o.Body) == 0 && o.HdrTok == stored.HdrTok {
		o.Tok = stored.Tok // the header section of the stored response, judged like the response itself
	}
	if kind == "GET+If-None-Match" && o.Status == http.StatusNotModified {
		return // the cache may evaluate the client's precondition itself
	}
	if (kind == "GET+Range" || kind == "POST") && stored != nil && (o.Tok == stored.Tok || o.HdrTok == stored.HdrTok) {
		x.Failf("stored response handed to a request that is not a plain GET ("+kind+")", "state %s: %s", state, o.String())
		return
	}
	// served a stored response: it must be one the other rules allow without validation.
	if stored == nil || o.Tok != stored.Tok {
		x.Failf("unknown response without origin contact", "state %s: got %s", state, o.String())
		return
	}
	has := func(d string) bool {
		for _, e := range ds {
			if e == d {
				return true
			}
		}
		return false
	}
	switch {
	case state == "no-cache", state == "stale+must-revalidate", state == "vary-star", state == "other-variant", state == "other-variant, Vary list with * first":
		x.Failf("served unvalidated: state="+state, "stored response served under only-if-cached although it requires validation / does not match: %s", o.String())
	case has("no-cache") || has("max-age=0"):
		x.Failf("served unvalidated: request "+sigExtras(ds), "stored response served although the request demands validation: %s", o.String())
	}
}

func sigExtras(ds []string) string {
	// signature keeps only the directives that can decide the outcome
	var k []string
	for _, d := range ds {
		if d == "no-cache" || d == "max-age=0" {
			k = append(k, d)
		}
	}
	sort.Strings(k)
	if len(k) == 0 {
		return "-"
	}
	return strings.Join(k, "+")
}
