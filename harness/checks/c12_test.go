package checks

import (
	"fmt"
	"net/http"
	"strings"

	"verifharness/mc"
	"verifharness/world"
)

// C12 — equivalent spellings of Cache-Control behave identically (metamorphic pairs).
func init() { register(&Check{ID: "C12", Run: runC12, ShardDepth: 2}) }

// c12Scn is a base history in which directive dirs[dec] decides the observable outcome.
type c12Scn struct {
	name string
	side string // "resp" (stored response) or "req" (second request)
	dirs []string
	dec  int
	// history parameters
	status  int
	elapsed int64
	otherCC string // Cache-Control on the other side (canonical)
	follow  string // what the origin answers in the follow-up exchange: "200" | "304" | "500"
	lmAgo   int64  // Last-Modified this many seconds before Date (0: none)
	emptyDB bool   // request-side scenario on an empty store
	secret  bool   // stored response carries X-Secret
	twoGets bool   // request-side scenario: rewritten CC on the first (storing) request, then plain GET
	on304   bool   // the field under test arrives on the 304 that freshens the stored response; a third request observes it
}

var c12Scns = []c12Scn{
	{name: "resp no-store", side: "resp", dirs: []string{"no-store", "max-age=100"}, dec: 0, status: 200, elapsed: 10, follow: "200"},
	{name: "resp max-age", side: "resp", dirs: []string{"max-age=100", "must-revalidate"}, dec: 0, status: 200, elapsed: 50, follow: "304"},
	{name: "resp no-cache", side: "resp", dirs: []string{"no-cache", "max-age=100"}, dec: 0, status: 200, elapsed: 10, follow: "304"},
	{name: "resp must-revalidate", side: "resp", dirs: []string{"must-revalidate", "max-age=5"}, dec: 0, status: 200, elapsed: 50, otherCC: "max-stale=1000", follow: "304"},
	{name: "resp stale-while-revalidate", side: "resp", dirs: []string{"stale-while-revalidate=100", "max-age=5"}, dec: 0, status: 200, elapsed: 50, follow: "304"},
	{name: "resp stale-if-error", side: "resp", dirs: []string{"stale-if-error=100", "max-age=5"}, dec: 0, status: 200, elapsed: 50, follow: "500"},
	{name: "resp public", side: "resp", dirs: []string{"public", "stale-if-error=1"}, dec: 0, status: 302, elapsed: 10, follow: "200", lmAgo: 1000},
	{name: "resp must-understand", side: "resp", dirs: []string{"must-understand", "max-age=100"}, dec: 0, status: 299, elapsed: 10, follow: "200"},
	{name: "resp qualified no-cache", side: "resp", dirs: []string{`no-cache="X-Secret"`, "max-age=100"}, dec: 0, status: 200, elapsed: 10, follow: "304", secret: true},
	{name: "resp three directives", side: "resp", dirs: []string{"max-age=100", "no-cache", "stale-if-error=5"}, dec: 1, status: 200, elapsed: 10, follow: "304"},
	{name: "304 no-cache", side: "resp", on304: true, dirs: []string{"no-cache", "max-age=3600"}, dec: 0, status: 200, elapsed: 10, otherCC: "", follow: "304"},
	{name: "304 no-store", side: "resp", on304: true, dirs: []string{"no-store", "max-age=3600"}, dec: 0, status: 200, elapsed: 10, otherCC: "", follow: "304"},
	{name: "resp qualified no-cache (two fields)", side: "resp", dirs: []string{`no-cache="X-Secret, Set-Cookie"`, "max-age=100"}, dec: 0, status: 200, elapsed: 10, follow: "304", secret: true},
	{name: "304 max-age", side: "resp", on304: true, dirs: []string{"max-age=3600", "stale-if-error=1"}, dec: 0, status: 200, elapsed: 10, otherCC: "", follow: "304"},
	{name: "req no-cache", side: "req", dirs: []string{"no-cache", "max-stale=5"}, dec: 0, status: 200, elapsed: 10, otherCC: "max-age=100", follow: "304"},
	{name: "req no-store", side: "req", dirs: []string{"no-store", "max-stale=5"}, dec: 0, status: 200, elapsed: 10, otherCC: "max-age=100", follow: "200", twoGets: true},
	{name: "req max-age", side: "req", dirs: []string{"max-age=5", "max-stale=0"}, dec: 0, status: 200, elapsed: 50, otherCC: "max-age=100", follow: "304"},
	{name: "req max-stale=N", side: "req", dirs: []string{"max-stale=100", "max-age=1000"}, dec: 0, status: 200, elapsed: 50, otherCC: "max-age=5", follow: "304"},
	{name: "req max-stale", side: "req", dirs: []string{"max-stale", "max-age=1000"}, dec: 0, status: 200, elapsed: 50, otherCC: "max-age=5", follow: "304"},
	{name: "req min-fresh", side: "req", dirs: []string{"min-fresh=80", "max-stale=0"}, dec: 0, status: 200, elapsed: 50, otherCC: "max-age=100", follow: "304"},
	{name: "req only-if-cached", side: "req", dirs: []string{"only-if-cached", "max-stale=5"}, dec: 0, status: 200, elapsed: 10, follow: "200", emptyDB: true},
	{name: "req stale-if-error", side: "req", dirs: []string{"stale-if-error=100", "min-fresh=0"}, dec: 0, status: 200, elapsed: 50, otherCC: "max-age=5", follow: "500"},
}

// run executes the scenario with the given Cache-Control field lines on the scenario's side
// and returns the observation vector.
func (s *c12Scn) run(x *mc.X, lines []string, verbose bool) string {
	w := world.New(world.Opt{})
	defer w.Close()
	var vec []string
	obs := func(o *world.Obs, stored string) {
		cond := ""
		for _, c := range o.Calls {
			cond += fmt.Sprintf("[inm=%v ims=%v]", c.Header.Get("If-None-Match") != "", c.Header.Get("If-Modified-Since") != "")
		}
		tokClass := "none"
		if o.Tok != "" {
			tokClass = "new"
			if o.Tok == stored {
				tokClass = "stored"
			}
		}
		sets := 0
		for _, op := range o.Ops {
			if op.Kind == "set" {
				sets++
			}
		}
		e := ""
		if o.Err != nil {
			e = "err"
		}
		if o.Panic != nil {
			e = "panic"
		}
		vec = append(vec, fmt.Sprintf("%d|%s|tok=%s|calls=%d%s|bg=%d|sets=%d|secret=%v|%s", o.Status, o.CacheStatus, tokClass, len(o.Calls), cond, len(o.BgCalls), sets, o.Header.Get("X-Secret") != "", e))
		x.Transitions(1 + len(o.Ops) + len(o.Calls))
	}
	setCC := func(h http.Header, ls []string) {
		for _, l := range ls {
			h.Add("Cache-Control", l)
		}
	}
	// first exchange
	respH := http.Header{}
	if s.on304 {
		respH.Set("Cache-Control", "max-age=1")
	} else if s.side == "resp" {
		setCC(respH, lines)
	} else if s.otherCC != "" {
		respH.Set("Cache-Control", s.otherCC)
	}
	stored := ""
	if !s.emptyDB {
		var h [][2]string
		for _, l := range respH.Values("Cache-Control") {
			h = append(h, [2]string{"Cache-Control", l})
		}
		h = append(h, [2]string{"ETag", `"v1"`})
		if s.lmAgo > 0 {
			h = append(h, [2]string{"Last-Modified", httpDate(w.Epoch.Add(-secs(s.lmAgo)))})
		}
		if s.secret {
			h = append(h, [2]string{"X-Secret", "s"})
		}
		answer(w, RS{Status: s.status, H: h})
		req := world.Req("GET", U)
		if s.side == "req" && s.twoGets {
			setCC(req.Header, lines)
		}
		o1 := w.Do(req)
		obs(o1, "")
		stored = o1.Tok
		if verbose {
			logObs(x, fmt.Sprintf("GET req-CC=%q (origin: %d CC=%q)", req.Header.Values("Cache-Control"), s.status, respH.Values("Cache-Control")), o1)
		}
		world.Advance(secs(s.elapsed))
	}
	// follow-up exchange
	answerFn(w, func(o *world.Origin, c *world.Call) (*http.Response, error) {
		cond := c.Header.Get("If-None-Match") != "" || c.Header.Get("If-Modified-Since") != ""
		switch {
		case s.follow == "304" && cond:
			h304 := H("ETag", `"v1"`)
			if s.on304 {
				for _, l := range lines {
					h304 = append(h304, [2]string{"Cache-Control", l})
				}
			}
			return o.Respond(c, RS{Status: 304, NoTok: true, H: h304}), nil
		case s.follow == "500":
			return o.Respond(c, RS{Status: 500}), nil
		}
		return o.Respond(c, RS{Status: 200, H: H("Cache-Control", "max-age=100", "ETag", `"v2"`)}), nil
	})
	req := world.Req("GET", U)
	if s.side == "req" && !s.twoGets {
		setCC(req.Header, lines)
	} else if s.side == "resp" && s.otherCC != "" {
		req.Header.Set("Cache-Control", s.otherCC)
	}
	o2 := w.Do(req)
	obs(o2, stored)
	if verbose {
		logObs(x, fmt.Sprintf("GET after %ds req-CC=%q (origin would answer %s)", s.elapsed, req.Header.Values("Cache-Control"), s.follow), o2)
	}
	if s.on304 {
		world.Advance(secs(5))
		o3 := w.Do(world.Req("GET", U))
		obs(o3, stored)
		if verbose {
			logObs(x, "GET 5 s after the 304", o3)
		}
	}
	return strings.Join(vec, " ; ")
}

// ---- rewrites

type c12Form struct {
	dirs   []string
	splits []int // line breaks before these indexes
	sep    string
	lead   string
	trail  string
	empty  int // 1: an empty field line first, 2: last, 3: both (an empty field value is an empty list)
}

func (f c12Form) lines() []string {
	var out []string
	start := 0
	cuts := append(append([]int{}, f.splits...), len(f.dirs))
	for _, c := range cuts {
		if c <= start {
			continue
		}
		sep := f.sep
		if sep == "" {
			sep = ", "
		}
		out = append(out, f.lead+strings.Join(f.dirs[start:c], sep)+f.trail)
		start = c
	}
	if f.empty&1 != 0 {
		out = append([]string{""}, out...)
	}
	if f.empty&2 != 0 {
		out = append(out, "")
	}
	return out
}

func (f c12Form) clone() c12Form {
	f.dirs = append([]string{}, f.dirs...)
	f.splits = append([]int{}, f.splits...)
	return f
}

type c12Rewrite struct {
	family string
	name   string
	apply  func(f c12Form, dec int) (c12Form, int)
}

func recase(d, mode string) string {
	name, arg, has := strings.Cut(d, "=")
	var b strings.Builder
	for i, r := range name {
		switch mode {
		case "upper":
			b.WriteString(strings.ToUpper(string(r)))
		case "title":
			if i == 0 || name[i-1] == '-' {
				b.WriteString(strings.ToUpper(string(r)))
			} else {
				b.WriteRune(r)
			}
		case "alt":
			if i%2 == 1 {
				b.WriteString(strings.ToUpper(string(r)))
			} else {
				b.WriteRune(r)
			}
		}
	}
	if has {
		return b.String() + "=" + arg
	}
	return b.String()
}

func requote(d string) (string, bool) {
	name, arg, has := strings.Cut(d, "=")
	if !has {
		return d, false
	}
	if strings.HasPrefix(arg, `"`) {
		inner := strings.Trim(arg, `"`)
		if strings.ContainsAny(inner, ", ") {
			return d, false
		}
		return name + "=" + inner, true // token form of a single-member quoted argument
	}
	return name + `="` + arg + `"`, true
}

func permutations(n int) [][]int {
	var out [][]int
	var rec func(cur []int, used []bool)
	rec = func(cur []int, used []bool) {
		if len(cur) == n {
			out = append(out, append([]int{}, cur...))
			return
		}
		for i := 0; i < n; i++ {
			if !used[i] {
				used[i] = true
				rec(append(cur, i), used)
				used[i] = false
			}
		}
	}
	rec(nil, make([]bool, n))
	return out
}

func c12Rewrites(n int) []c12Rewrite {
	var rs []c12Rewrite
	for _, mode := range []string{"upper", "title", "alt"} {
		mode := mode
		rs = append(rs, c12Rewrite{"case", mode + "(deciding)", func(f c12Form, dec int) (c12Form, int) {
			f = f.clone()
			f.dirs[dec] = recase(f.dirs[dec], mode)
			return f, dec
		}})
		rs = append(rs, c12Rewrite{"case", mode + "(all)", func(f c12Form, dec int) (c12Form, int) {
			f = f.clone()
			for i := range f.dirs {
				f.dirs[i] = recase(f.dirs[i], mode)
			}
			return f, dec
		}})
	}
	for _, sp := range []struct{ name, sep, lead, trail string }{
		{"sep ' , '", " , ", "", ""}, {"sep ',\\t'", ",\t", "", ""}, {"sep ','", ",", "", ""}, {"lead/trail OWS", ", ", " ", " \t"},
		{"empty members", ",, ", ",", ","}, {"empty members with OWS", " , ,", " , ", " ,  "},
	} {
		sp := sp
		rs = append(rs, c12Rewrite{"ows", sp.name, func(f c12Form, dec int) (c12Form, int) {
			f = f.clone()
			f.sep, f.lead, f.trail = sp.sep, sp.lead, sp.trail
			return f, dec
		}})
	}
	for _, em := range []int{1, 2, 3} {
		em := em
		rs = append(rs, c12Rewrite{"emptyline", fmt.Sprintf("empty field line(s) %d", em), func(f c12Form, dec int) (c12Form, int) {
			f = f.clone()
			f.empty = em
			return f, dec
		}})
	}
	rs = append(rs, c12Rewrite{"quote", "deciding argument quoted<->token", func(f c12Form, dec int) (c12Form, int) {
		f = f.clone()
		if q, ok := requote(f.dirs[dec]); ok {
			f.dirs[dec] = q
		}
		return f, dec
	}})
	rs = append(rs, c12Rewrite{"quote", "all arguments quoted<->token", func(f c12Form, dec int) (c12Form, int) {
		f = f.clone()
		for i := range f.dirs {
			if q, ok := requote(f.dirs[i]); ok {
				f.dirs[i] = q
			}
		}
		return f, dec
	}})
	// splits: every non-empty subset of the n-1 (or more, after an extension) gaps is generated lazily by position
	for mask := 1; mask < 1<<(n+1); mask++ {
		mask := mask
		rs = append(rs, c12Rewrite{"split", fmt.Sprintf("field lines split mask=%b", mask), func(f c12Form, dec int) (c12Form, int) {
			f = f.clone()
			f.splits = nil
			for i := 1; i < len(f.dirs); i++ {
				if mask&(1<<(i-1)) != 0 {
					f.splits = append(f.splits, i)
				}
			}
			return f, dec
		}})
	}
	// a quoted argument that is itself a list (field names): empty members and whitespace inside it change nothing
	for _, form := range []struct{ name, pre, sep, post string }{{"leading empty member", ",", ",", ""}, {"leading empty member with OWS", " , ", " , ", " "}, {"empty members everywhere", ",,", ",,", ",,"}} {
		form := form
		rs = append(rs, c12Rewrite{"listarg", "quoted list argument: " + form.name, func(f c12Form, dec int) (c12Form, int) {
			g := f.clone()
			for i, d := range g.dirs {
				name, arg, has := strings.Cut(d, "=")
				if !has || len(arg) < 2 || arg[0] != '"' || strings.ContainsAny(arg[1:len(arg)-1], `"\\`) || strings.Trim(arg[1:len(arg)-1], "ABCDEFGHIJKLMNOPQRSTUVWXYZabcdefghijklmnopqrstuvwxyz-, ") != "" {
					continue
				}
				var ms []string
				for _, m := range strings.Split(arg[1:len(arg)-1], ",") {
					if m = strings.TrimSpace(m); m != "" {
						ms = append(ms, m)
					}
				}
				if len(ms) == 0 {
					continue
				}
				g.dirs[i] = name + `="` + form.pre + strings.Join(ms, form.sep) + form.post + `"`
			}
			return g, dec
		}})
	}
	// long lists: k unknown extension directives in front of (and, for one size, behind) everything else
	for _, k := range []int{15, 16, 17, 40} {
		k := k
		rs = append(rs, c12Rewrite{"many", fmt.Sprintf("%d extension directives in front", k), func(f c12Form, dec int) (c12Form, int) {
			g := f.clone()
			var ext []string
			for i := 0; i < k; i++ {
				ext = append(ext, fmt.Sprintf("x%d", i+1))
			}
			g.dirs = append(ext, g.dirs...)
			for i := range g.splits {
				g.splits[i] += k
			}
			return g, dec + k
		}})
	}
	rs = append(rs, c12Rewrite{"many", "a repeated extension directive in front", func(f c12Form, dec int) (c12Form, int) {
		g := f.clone()
		g.dirs = append([]string{"x-rep", "x-rep=1", "x-rep"}, g.dirs...)
		for i := range g.splits {
			g.splits[i] += 3
		}
		return g, dec + 3
	}})
	// delta-seconds is 1*DIGIT: leading zeros are legal and change nothing
	for _, pad := range []int{1, 9, 10, 11, 24} {
		pad := pad
		rs = append(rs, c12Rewrite{"zeros", fmt.Sprintf("numeric arguments padded with %d leading zero(s)", pad), func(f c12Form, dec int) (c12Form, int) {
			g := f.clone()
			for i, d := range g.dirs {
				name, arg, has := strings.Cut(d, "=")
				if !has || arg == "" || strings.Trim(arg, "0123456789") != "" {
					continue
				}
				g.dirs[i] = name + "=" + strings.Repeat("0", pad) + arg
			}
			return g, dec
		}})
	}
	for _, p := range permutations(n)[1:] {
		p := p
		rs = append(rs, c12Rewrite{"perm", fmt.Sprintf("order %v", p), func(f c12Form, dec int) (c12Form, int) {
			if len(f.dirs) != len(p) {
				return f, dec // only defined on the base arity
			}
			g := f.clone()
			nd := dec
			for i, j := range p {
				g.dirs[i] = f.dirs[j]
				if j == dec {
					nd = i
				}
			}
			return g, nd
		}})
	}
	for _, ext := range []string{"foo", "foo=bar", `foo="a,b"`, `foo="no-store"`, `foo="x, no-cache, max-age=0"`, `community="UCI"`, `root="C:\\"`, `q="a\"b, no-store"`} {
		for pos := 0; pos <= n; pos++ {
			ext, pos := ext, pos
			rs = append(rs, c12Rewrite{"ext", fmt.Sprintf("extension %s at %d", ext, pos), func(f c12Form, dec int) (c12Form, int) {
				g := f.clone()
				p := pos
				if p > len(g.dirs) {
					p = len(g.dirs)
				}
				g.dirs = append(g.dirs[:p], append([]string{ext}, g.dirs[p:]...)...)
				nd := dec
				if p <= dec {
					nd = dec + 1
				}
				for i := range g.splits {
					if g.splits[i] > p {
						g.splits[i]++
					}
				}
				return g, nd
			}})
		}
	}
	return rs
}

var c12Big = []string{"2147483648", "4294967296", "9223372036", "9223372037", "18446744074", "9223372036854775807", "9223372036854775808", "18446744073709551616", "1000000000000000000000000000000"}

type c12Num struct {
	name    string
	side    string
	dir     string // directive taking the number
	other   []string
	otherCC string
	follow  string
}

var c12Nums = []c12Num{
	{name: "resp max-age", side: "resp", dir: "max-age", follow: "304"},
	{name: "resp stale-while-revalidate", side: "resp", dir: "stale-while-revalidate", other: []string{"max-age=1"}, follow: "304"},
	{name: "resp stale-if-error", side: "resp", dir: "stale-if-error", other: []string{"max-age=1"}, follow: "500"},
	{name: "req max-age", side: "req", dir: "max-age", otherCC: "max-age=4294967296", follow: "304"},
	{name: "req max-stale", side: "req", dir: "max-stale", otherCC: "max-age=1", follow: "304"},
	{name: "req min-fresh", side: "req", dir: "min-fresh", otherCC: "max-age=4294967296", follow: "304"},
	{name: "req stale-if-error", side: "req", dir: "stale-if-error", otherCC: "max-age=1", follow: "500"},
}

func runC12(x *mc.X) {
	mode := mc.Pick(x, "mode", []string{"spelling", "numbers"})
	if mode == "numbers" {
		runC12Numbers(x)
		return
	}
	si := x.Choose("scenario", len(c12Scns))
	s := &c12Scns[si]
	x.Trace[len(x.Trace)-1].Desc = s.name
	rws := c12Rewrites(len(s.dirs))
	// single rewrite or (thorough) a pair from two different families
	r1 := x.Choose("rewrite-1", len(rws))
	x.Trace[len(x.Trace)-1].Desc = rws[r1].family + ": " + rws[r1].name
	r2 := -1
	if x.Tier() == "thorough" {
		r2 = x.Choose("rewrite-2", len(rws)+1) - 1
		if r2 >= 0 {
			x.Trace[len(x.Trace)-1].Desc = rws[r2].family + ": " + rws[r2].name
			if rws[r2].family <= rws[r1].family {
				x.Skip() // unordered pairs of different families, once
			}
		}
	}
	base := c12Form{dirs: append([]string{}, s.dirs...)}
	f, dec := rws[r1].apply(base, s.dec)
	if r2 >= 0 {
		f, dec = rws[r2].apply(f, dec)
	}
	_ = dec
	canon := base.lines()
	rewritten := f.lines()
	if strings.Join(canon, "\n") == strings.Join(rewritten, "\n") {
		x.Skip()
	}
	// the base history must be discriminating: deleting the deciding directive changes the observation
	without := c12Form{dirs: append(append([]string{}, s.dirs[:s.dec]...), s.dirs[s.dec+1:]...)}
	v0 := s.run(x, canon, false)
	vDel := s.run(x, without.lines(), false)
	if v0 == vDel {
		x.Note("non-discriminating base: " + s.name)
		return
	}
	v1 := s.run(x, rewritten, true)
	x.Logf("canonical %q -> %s", canon, v0)
	x.Logf("rewritten %q -> %s", rewritten, v1)
	fam := rws[r1].family
	if r2 >= 0 {
		fam += "+" + rws[r2].family
	}
	x.Nontrivial(s.name + "/" + fam)
	x.State(s.name, v1)
	x.Note(fmt.Sprintf("equal=%v", v0 == v1))
	x.Sample(map[string]any{"scenario": s.name, "canonical": canon, "rewritten": rewritten, "observation": v1})
	if v0 != v1 {
		x.Failf(fmt.Sprintf("spelling changes behaviour: %s / %s", s.name, fam),
			"Cache-Control %q (%s side) behaves differently from its canonical form %q:\n canonical: %s\n rewritten: %s", rewritten, s.side, canon, v0, v1)
	}
}

func runC12Numbers(x *mc.X) {
	ni := x.Choose("directive", len(c12Nums))
	n := &c12Nums[ni]
	x.Trace[len(x.Trace)-1].Desc = n.name
	big := mc.Pick(x, "argument", c12Big[1:])
	elapsed := mc.Pick(x, "elapsed", []int64{1, 31536000, 1<<31 - 2})
	quoted := x.Choose("quoted", 2) == 1
	mk := func(arg string) *c12Scn {
		d := n.dir + "=" + arg
		if quoted {
			d = n.dir + `="` + arg + `"`
		}
		return &c12Scn{name: n.name, side: n.side, dirs: append([]string{d}, n.other...), status: 200, elapsed: elapsed, otherCC: n.otherCC, follow: n.follow}
	}
	ref := mk("2147483648")
	quotedSave := quoted
	quoted = false
	ref = mk("2147483648")
	quoted = quotedSave
	sb := mk(big)
	v0 := ref.run(x, c12Form{dirs: ref.dirs}.lines(), false)
	v1 := sb.run(x, c12Form{dirs: sb.dirs}.lines(), true)
	x.Logf("%s=2147483648 -> %s", n.dir, v0)
	x.Logf("%s=%s -> %s", n.dir, big, v1)
	x.Nontrivial(n.name + "/" + big)
	x.State(n.name, big, fmt.Sprint(elapsed), v1)
	x.Sample(map[string]any{"directive": n.name, "argument": big, "elapsed_s": elapsed, "observation": v1, "reference_2^31": v0})
	if v0 != v1 {
		x.Failf(fmt.Sprintf("huge delta-seconds does not act as 2^31: %s", n.name),
			"%s=%s after %d s behaves differently from %s=2147483648:\n 2^31: %s\n huge: %s", n.dir, big, elapsed, n.dir, v0, v1)
	}
}
