package checks

import (
	"context"
	"fmt"
	"net/http"
	"strconv"
	"strings"
	"time"

	"verifharness/mc"
	"verifharness/oracle"
	"verifharness/world"
)

// C13 — stale-if-error serves the stored response on origin failure, within its window.
func init() { register(&Check{ID: "C13", Run: runC13, ShardDepth: 3}) }

func c13Failures(tier string) []int {
	// -1: transport error; -2 / -3: an error that wraps context.DeadlineExceeded / context.Canceled although the caller's
	// own context is alive (a per-attempt timeout inside the upstream); -4: transport error after 5 s; -5: 503 after 5 s
	f := []int{-1, -2, -3, -4, -5, 500, 502, 503, 504}
	if tier == "thorough" {
		for s := 400; s <= 599; s++ {
			if s != 500 && s != 502 && s != 503 && s != 504 {
				f = append(f, s)
			}
		}
		return f
	}
	return append(f, 400, 404, 408, 429, 501, 505, 507, 599)
}

func runC13(x *mc.X) {
	if mc.Pick(x, "mode", []string{"single failure", "replaced entry"}) == "replaced entry" {
		runC13Replaced(x)
		return
	}
	placement := mc.Pick(x, "sie.placement", []string{"stored", "request", "both", "both(stored=0)", "both(request=0)", "neither", "error-reply-only"})
	N := mc.Pick(x, "sie.N", []int64{0, 5, 100, 1 << 31, 10000000000})
	// delta-seconds is 1*DIGIT: leading zeros are legal; a value beyond 2^31 acts as 2^31
	nspell := mc.Pick(x, "sie.N-spelling", []string{"plain", "eleven digits", "capitalised directive name"})
	fmtN := func(n int64) string {
		if nspell == "eleven digits" {
			return fmt.Sprintf("%011d", n)
		}
		return strconv.FormatInt(n, 10)
	}
	if nspell != "plain" && N != 5 && N != 100 {
		x.Skip()
	}
	sieName := "stale-if-error="
	if nspell == "capitalised directive name" {
		sieName = "Stale-If-Error="
	}
	stIdx := x.Choose("staleness", 4)
	failure := mc.Pick(x, "failure", c13Failures(x.Tier()))
	blocker := mc.Pick(x, "blocker", []string{"", "must-revalidate", "stored-no-cache", "request-no-cache"})
	withETag := x.Choose("validators", 2) == 0
	reqExtra := mc.Pick(x, "request.extra", []string{"", "max-stale", "max-stale=100000", "max-age=0"})
	storedSIE, reqSIE := "", ""
	switch placement {
	case "stored":
		storedSIE = sieName + fmtN(N)
	case "request":
		reqSIE = sieName + fmtN(N)
	case "both":
		storedSIE, reqSIE = sieName+fmtN(N), sieName+fmtN(N)
	case "both(stored=0)": // the larger window applies
		storedSIE, reqSIE = "stale-if-error=0", sieName+fmtN(N)
	case "both(request=0)":
		storedSIE, reqSIE = sieName+fmtN(N), "stale-if-error=0"
	}

	if N > 1<<31 {
		N = 1 << 31 // what the directive means from here on
	}
	staleness := []int64{N - 1, N, N + 1, 1}[stIdx]
	if staleness < 0 || (stIdx == 3 && (N-1 == 1 || N == 1 || N+1 == 1)) {
		x.Skip() // fresh, or duplicate of another staleness choice
	}
	logger := ""
	if failure < 0 || failure == 503 || x.Tier() == "thorough" {
		logger = mc.Pick(x, "logger", []string{"", "text"})
	}
	w := world.New(world.Opt{Logger: logger})
	defer w.Close()
	sie := sieName + fmtN(N)
	storedCC := cc("max-age=10", storedSIE, ifs(blocker == "must-revalidate", "must-revalidate"), ifs(blocker == "stored-no-cache", "no-cache"))
	h := H("Cache-Control", storedCC)
	if withETag {
		h = append(h, [2]string{"ETag", `"v1"`})
	}
	answer(w, RS{Status: 200, H: h})
	o1 := get(w, U)
	logObs(x, fmt.Sprintf("GET (origin: 200 %v)", h), o1)
	if o1.Tok == "" || !strings.Contains(w.Conn.Snapshot(), o1.Tok) {
		x.Failf("harness: prologue did not store", "%s", o1)
		return
	}
	tk := w.Origin.Toks[o1.Tok]
	st := &oracle.Stored{Status: tk.Status, Header: tk.Header, ReqTime: tk.ReqTime, RespTime: tk.RespTime}
	world.Advance(secs(10 + staleness))

	slow := failure == -4 || failure == -5
	switch failure {
	case -4:
		failure = -1
	case -5:
		failure = 503
	}
	answerFn(w, func(o *world.Origin, c *world.Call) (*http.Response, error) {
		if slow {
			_ = world.Sleep(c.Req, secs(5))
		}
		switch failure {
		case -1:
			return nil, errOrigin
		case -2:
			return nil, fmt.Errorf("upstream attempt timed out: %w", context.DeadlineExceeded)
		case -3:
			return nil, fmt.Errorf("upstream attempt abandoned: %w", context.Canceled)
		}
		var eh [][2]string
		if placement == "error-reply-only" {
			eh = H("Cache-Control", sie)
		}
		return o.Respond(c, RS{Status: failure, H: eh}), nil
	})
	reqCC := cc(reqSIE, ifs(blocker == "request-no-cache", "no-cache"), reqExtra)
	req := world.Req("GET", U)
	if reqCC != "" {
		req.Header.Set("Cache-Control", reqCC)
	}
	now := time.Now()
	o2 := w.Do(req)
	logObs(x, fmt.Sprintf("GET at staleness %ds Cache-Control=%q (origin fails with %d)", staleness, reqCC, failure), o2)

	eligible := failure < 0 || failure == 500 || failure == 502 || failure == 503 || failure == 504
	applicable := storedSIE != "" || reqSIE != ""
	if strings.HasPrefix(reqExtra, "max-stale") && blocker != "must-revalidate" && blocker != "stored-no-cache" {
		x.Skip() // with max-stale and no blocking directive the stale response is simply served without validation
	}
	cls := fmt.Sprintf("placement=%s/inWindow=%v/atBoundary=%v/eligible=%v/blocker=%s", placement, staleness < N, staleness == N, eligible, blocker)
	x.Nontrivial(cls)
	x.State(cls, fmt.Sprint(N, failure, withETag), obsClass(o2), fmt.Sprint(o2.Tok == o1.Tok))
	x.Note(obsClass(o2))
	x.Sample(map[string]any{"stored_cache_control": storedCC, "request_cache_control": reqCC, "N": N, "staleness_s": staleness, "failure": failure, "observed": o2.String()})
	if o2.Panic != nil {
		if eligible && applicable && staleness+5 < N && blocker == "" {
			x.Failf("stale-if-error not honoured: the round trip panicked instead of serving the stored response"+ifs(logger != "", " (logger enabled)"), "staleness %d < N %d, failure %d: %v", staleness, N, failure, o2.Panic)
		}
		return // otherwise C10's business
	}
	if len(o2.Calls) != 1 {
		x.Failf("no validation attempt", "expected exactly one foreground origin call, saw %d: %s", len(o2.Calls), o2)
		return
	}
	servedStored := o2.Err == nil && o2.Tok == o1.Tok
	// a failure that takes 5 s: the window may be judged when the request arrives or when the failure is known
	late := staleness
	if slow {
		late += 5
	}
	mustServe := eligible && applicable && late < N && blocker == ""
	mustNot := !eligible || !applicable || staleness > N || blocker != ""
	sig := fmt.Sprintf("placement=%s eligible=%v window=%s blocker=%q", placement, eligible, map[bool]string{true: "inside", false: "outside"}[staleness < N], blocker)
	if failure >= 0 && !eligible {
		sig += fmt.Sprintf(" status=%dxx", failure/100)
	}
	switch {
	case mustServe && !servedStored:
		x.Failf("stale-if-error not honoured: "+sig, "stored response should have been served (staleness %d < N %d, failure %d) but the client got %s", staleness, N, failure, o2)
	case mustNot && servedStored:
		x.Failf("stored response served on failure outside the rule: "+sig, "staleness %d, N %d, failure %d, blocker %q, directive placement %s: the stored response must not be returned, got %s", staleness, N, failure, blocker, placement, o2)
	}
	if servedStored {
		if o2.CacheStatus != "STALE" {
			x.Failf("stale-if-error response not marked STALE", "X-Httpcache-Status=%q", o2.CacheStatus)
		}
		av := o2.Header.Values("Age")
		ok := false
		if len(av) == 1 {
			if got, err := strconv.ParseInt(av[0], 10, 64); err == nil {
				for _, a := range st.Ages(now.Add(o2.Dur)) { // judged when the response is handed over (a failing origin may take its time)
					if got >= a-1 && got <= a+1 {
						ok = true
					}
				}
			}
		}
		if !ok {
			x.Failf("stale-if-error response with wrong Age", "Age=%q, current age %v", av, st.Ages(now.Add(o2.Dur)))
		}
	} else if mustNot || !mustServe {
		// the origin's failure is what the client must see
		if failure < 0 {
			if o2.Err == nil && !(staleness <= N && late >= N && applicable && eligible && blocker == "") {
				x.Failf("origin error masked: "+sig, "origin call failed but client got %s", o2)
			}
		} else if o2.Err != nil || o2.Status != failure {
			x.Failf("origin error reply not returned: "+sig, "origin answered %d, client got %s", failure, o2)
		}
	}
	_ = http.StatusOK
}

// runC13Replaced: the stored response is replaced between two failures; the second failure is judged by the directives of
// the response that is stored THEN (whatever was decided or remembered for the replaced one).
func runC13Replaced(x *mc.X) {
	dirs := []string{"stale-if-error=100", "", "stale-if-error=100, must-revalidate", "stale-if-error=5", "no-cache, stale-if-error=100"}
	a := mc.Pick(x, "first-response", dirs)
	b := mc.Pick(x, "replacement", dirs)
	fail1 := mc.Pick(x, "first-failure", []string{"503", "error", "none"})
	fail2 := mc.Pick(x, "second-failure", []string{"503", "error"})
	transports := mc.Pick(x, "transports", []string{"one", "two"})
	w := world.New(world.Opt{})
	defer w.Close()
	w.Alternate = transports == "two"
	failing := func(kind string) {
		answerFn(w, func(o *world.Origin, c *world.Call) (*http.Response, error) {
			if kind == "error" {
				return nil, errOrigin
			}
			return o.Respond(c, RS{Status: 503}), nil
		})
	}
	answer(w, RS{Status: 200, H: H("Cache-Control", cc("max-age=10", a), "ETag", `"a"`)})
	o1 := get(w, U)
	logObs(x, "GET (origin: 200 max-age=10, "+a+")", o1)
	world.Advance(secs(20))
	if fail1 != "none" {
		failing(fail1)
		logObs(x, "GET 10 s stale (origin fails: "+fail1+")", get(w, U))
		world.Advance(secs(1))
	}
	// the directives in force change either with a full reply that replaces the entry, or with a 304 whose
	// Cache-Control comes on two field lines (they replace the stored field together, RFC 9111 §3.2)
	how := mc.Pick(x, "replaced-by", []string{"200", "304 with the directives on a second Cache-Control line"})
	if how == "200" {
		answer(w, RS{Status: 200, H: H("Cache-Control", cc("max-age=10", b), "ETag", `"b"`)})
	} else {
		answerFn(w, func(o *world.Origin, c *world.Call) (*http.Response, error) {
			if c.Header.Get("If-None-Match") != `"a"` {
				return o.Respond(c, RS{Status: 200, H: H("Cache-Control", "no-store")}), nil
			}
			return o.Respond(c, RS{Status: 304, NoTok: true, H: hdrIf(H("ETag", `"a"`, "Cache-Control", "max-age=10"), "Cache-Control", b)}), nil
		})
	}
	o3 := get(w, U)
	logObs(x, "GET (origin recovered: "+how+": max-age=10, "+b+")", o3)
	if how != "200" {
		if o3.Err != nil || o3.Panic != nil || o3.Tok != o1.Tok || len(o3.Calls) != 1 || o3.Calls[0].RespCode != 304 {
			x.Note("freshening did not happen as scripted")
			return
		}
	} else if o3.Err != nil || o3.Panic != nil || o3.Tok == "" || o3.Tok == o1.Tok || len(o3.Calls) != 1 {
		x.Note("replacement did not happen as scripted")
		return
	}
	world.Advance(secs(20)) // 10 s stale
	failing(fail2)
	o4 := get(w, U)
	logObs(x, "GET 10 s stale (origin fails: "+fail2+")", o4)
	x.Nontrivial(fmt.Sprintf("replaced/%s -> %s/%s", a, b, how))
	x.State("replaced", a, b, how, fail1, fail2, transports, obsClass(o4))
	if o4.Panic != nil {
		return
	}
	must := b == "stale-if-error=100"
	served := o4.Err == nil && o4.Tok == o3.Tok
	switch {
	case how == "200" && o4.Err == nil && o4.Tok == o1.Tok:
		x.Failf("the replaced response is served on failure", "first %q, replacement %q: %s", a, b, o4)
	case must && !served:
		x.Failf("stale-if-error not honoured after the entry was replaced (first: "+a+", by "+how+")", "replacement carries %q, 10 s stale, failure %s: %s", b, fail2, o4)
	case !must && served:
		x.Failf("stored response served on failure outside the rule after the entry was replaced (first: "+a+", by "+how+")", "replacement carries %q, 10 s stale, failure %s: %s", b, fail2, o4)
	}
}
