package checks

import (
	"fmt"
	"hash/fnv"
	"net/http"
	"net/url"
	"os"
	"path/filepath"
	"sort"
	"strconv"
	"strings"
	"testing"
	"testing/synctest"
	"time"

	"verifharness/mc"
	"verifharness/oracle"
	"verifharness/world"
)

// C03 — a stored response is reused only for an equivalent URI and a plain GET.
// C09's URI-liveness part shares the grammar and pass 1 (see c09_test.go).
func init() {
	register(&Check{ID: "C03", Run: runC03Methods, ShardDepth: 2, Custom: customC03, ReplayCustom: replayURLPair})
}

var (
	uSchemes = []string{"http", "https", "HTTP"}
	uUsers   = []string{"", "u@", "u:p@", "a:80@"}
	uHosts   = []string{"example.com", "EXAMPLE.com", "example.org", "example.com.", "127.0.0.1", "[::1]", "[::1:8080]", "[fe80::1%25en0]"}
	uPorts   = []string{"", ":", ":80", ":443", ":8080", ":080", ":65535", ":65536", ":70000"}
	uPaths   = []string{"", "/", "/a", "/A", "/%61", "/%41", "/a/./b", "/a/b", "/a/c/../b", "/a/%2e/b", "/a/c/%2e%2e/b", "/a/c/%2E%2E/b",
		"/~x", "/%7Ex", "/%7ex", "/a%2Fb", "/a%2fb", "/a//b", "/a/", "/%E9", "/%e9", "/\xe9", "/%C3%A9", "/é", "/\xe2\x80\xa6", "/a/../../b", "/..", "/b", "/x/y/../../b", "/x/b", "/x/./y/.././../b",
		"/u_d-e.f", "/u%5Fd%2De%2Ef", "/u%5fd%2de%2ef",
		"/d[1]", "/d%5B1%5D", "/m;v=1", "/m%3Bv%3D1", "/x^y", "/x%5Ey", "/p:q@r", "/p%3Aq%40r"}
	uQueries = []string{"", "?", "?q=1", "?q=%31", "?Q=1", "?q=%E9", "?q=%e9", "?q=\xe9", "?q=é", "?q=%C3%A9", "?q=\xef\xbf\xbd", "?q=%EF%BF%BD", "?q=\xe2\x80\xa6", "?q=\x80", "?a=1&b=2", "?b=2&a=1", "?a=1&&b=2", "?a=1&b=2&", "?&a=1&b=2", "?&", "?&&", "?q=a+b", "?q=a%2Bb", "?q=a%2bb", "?q=a%20b",
		"?k_1=v-2", "?k%5F1=v%2D2",
		"?i[]=1", "?i%5B%5D=1", "?q=a%26b", "?q=a%3Db", "?q=a/b?c", "?q=a%2Fb%3Fc"}
	uFrags = []string{"", "#f"}
)

type uCase struct {
	raw    string
	u      *url.URL
	strict oracle.URIForm
	loose  oracle.URIForm
	key    string // observed primary key (first Conn.Get of a GET for this URL)
	auth   int    // index of the authority block (scheme, userinfo, host, port) the URL belongs to
}

func uGrammar(tier string) []*uCase {
	var out []*uCase
	paths, queries := uPaths, uQueries
	auth := -1
	for _, s := range uSchemes {
		for _, us := range uUsers {
			for _, h := range uHosts {
				for _, p := range uPorts {
					auth++
					for _, pa := range paths {
						for _, q := range queries {
							for _, f := range uFrags {
								raw := s + "://" + us + h + p + pa + q + f
								req, err := http.NewRequest("GET", raw, nil)
								if err != nil {
									continue
								}
								c := &uCase{raw: raw, u: req.URL, auth: auth}
								c.strict, c.loose = oracle.NormalizeURI(req.URL)
								out = append(out, c)
							}
						}
					}
				}
			}
		}
	}
	return out
}

// observeKey performs one GET for the URL on an empty recording store and returns the key of the first Get.
func observeKey(raw string) (key string, sets []string, ok bool) {
	w := world.New(world.Opt{})
	defer w.Close()
	w.NoWait = true
	answer(w, RS{Status: 200, H: H("Cache-Control", "max-age=1000")})
	o := w.Do(world.Req("GET", raw))
	if o.Panic != nil || len(o.Ops) == 0 || o.Ops[0].Kind != "get" {
		return "", nil, false
	}
	for _, op := range o.Ops {
		if op.Kind == "set" {
			sets = append(sets, op.Key)
		}
	}
	return o.Ops[0].Key, sets, true
}

// observeAllKeys fills in c.key for every case. Each shard observes its own slice of the grammar and
// publishes it in the run's scratch directory and waits for the other slices until the check's time budget ends
// (no shorter wall-clock limit: on a loaded machine a fixed wait made every shard observe the slices of its slower
// peers itself, which slowed everything down further). A slice that is still missing then leaves its cases without
// a key; the caller reports the run as not exhaustive and skips them. Returns how many observations this shard made.
func observeAllKeys(t *testing.T, e *mc.Explorer, cases []*uCase, tag string) (made int, herr string, incomplete bool) {
	observe := func(shard int) []string {
		var lines []string
		synctest.Test(t, func(t *testing.T) {
			for i, c := range cases {
				if c.auth%e.Shards != shard {
					continue
				}
				k, _, ok := observeKey(c.raw)
				if !ok {
					herr = "no key observed for " + c.raw
					return
				}
				made++
				lines = append(lines, strconv.Itoa(i)+"\t"+strconv.Quote(k))
			}
		})
		return lines
	}
	load := func(lines []string) {
		for _, l := range lines {
			is, ks, ok := strings.Cut(l, "\t")
			if !ok {
				continue
			}
			i, err1 := strconv.Atoi(is)
			k, err2 := strconv.Unquote(ks)
			if err1 == nil && err2 == nil && i >= 0 && i < len(cases) {
				cases[i].key = k
			}
		}
	}
	dir := os.Getenv("VERIF_SCRATCH")
	mine := observe(e.Shard)
	load(mine)
	if dir == "" || e.Shards == 1 {
		for s := 0; s < e.Shards; s++ {
			if s != e.Shard {
				load(observe(s))
			}
		}
		return
	}
	name := func(s int) string { return filepath.Join(dir, fmt.Sprintf("%s-keys-%s-%d", tag, e.Tier, s)) }
	_ = os.WriteFile(name(e.Shard)+".tmp", []byte(strings.Join(mine, "\n")), 0o644)
	_ = os.Rename(name(e.Shard)+".tmp", name(e.Shard))
	deadline := e.Deadline
	if deadline.IsZero() {
		deadline = time.Now().Add(30 * time.Minute)
	}
	for s := 0; s < e.Shards; s++ {
		if s == e.Shard {
			continue
		}
		var data []byte
		for {
			b, err := os.ReadFile(name(s))
			if err == nil {
				data = b
				break
			}
			if time.Now().After(deadline) {
				break
			}
			time.Sleep(50 * time.Millisecond)
		}
		if data != nil {
			load(strings.Split(string(data), "\n"))
		} else {
			incomplete = true
		}
	}
	for _, c := range cases {
		if c.key == "" && herr == "" && !incomplete {
			herr = "key missing after exchange for " + c.raw
		}
	}
	return
}

// confirmSeq requests a (which is stored), then b, on the same transport; reports whether b received a's response.
func confirmSeq(t *testing.T, a, b string) (reused bool, narrative []string) {
	return confirmPair(t, a, b)
}

func strHash(s string) uint32 { h := fnv.New32a(); h.Write([]byte(s)); return h.Sum32() }

// confirmPair stores a response via a and requests b on the same fresh transport (virtual time).
func confirmPair(t *testing.T, a, b string) (reused bool, narrative []string) {
	synctest.Test(t, func(t *testing.T) {
		w := world.New(world.Opt{})
		defer w.Close()
		answer(w, RS{Status: 200, H: H("Cache-Control", "max-age=1000")})
		o1 := get(w, a)
		narrative = append(narrative, fmt.Sprintf("GET %q -> %s", a, o1))
		world.Advance(secs(5))
		answer(w, RS{Status: 200, H: H("Cache-Control", "no-store")})
		o2 := get(w, b)
		narrative = append(narrative, fmt.Sprintf("GET %q -> %s", b, o2))
		reused = o1.Tok != "" && o2.Err == nil && o2.Tok == o1.Tok
	})
	return
}

func customC03(t *testing.T, e *mc.Explorer) *mc.ShardResult {
	start := time.Now()
	res := e.Explore(t) // methods x Range product (standard explorer)
	cases := uGrammar(e.Tier)
	byKey := map[string][]*uCase{}
	n, herr, incomplete := observeAllKeys(t, e, cases, "c03")
	if herr != "" {
		res.HarnessErrs = append(res.HarnessErrs, herr)
	}
	res.Executions += int64(n)
	res.Transitions += int64(3 * n)
	for _, c := range cases {
		if c.key != "" {
			byKey[c.key] = append(byKey[c.key], c)
		}
	}
	if res.Nontrivial == nil {
		res.Nontrivial = map[string]int{}
	}
	if res.Notes == nil {
		res.Notes = map[string]int{}
	}
	if incomplete {
		res.Exhaustive = false
		res.Notes["the time budget ended before every shard had published its slice of the key observations"]++
	}
	keys := make([]string, 0, len(byKey))
	for k := range byKey {
		keys = append(keys, k)
	}
	sort.Strings(keys)
	viol := map[string]*mc.Violation{}
	pairs := 0
	for _, k := range keys {
		if !e.Deadline.IsZero() && time.Now().After(e.Deadline) { // the budget ended: report what was completed
			res.Exhaustive = false
			res.Notes["time budget ended inside the URI passes"]++
			break
		}
		e.AddState("key", k)
		if int(strHash(k))%e.Shards != e.Shard && e.Shards > 1 {
			continue
		}
		class := byKey[k]
		// group the class by loose form: members of one group may share a key
		groups := map[string]*uCase{}
		var order []string
		for _, c := range class {
			ls := c.loose.String()
			if _, ok := groups[ls]; !ok {
				groups[ls] = c
				order = append(order, ls)
			}
		}
		if len(class) > 1 {
			res.Nontrivial[fmt.Sprintf("key class with %d loose forms", len(order))]++
		}
		if len(order) < 2 {
			continue
		}
		sort.Strings(order)
		for i := 0; i < len(order); i++ {
			for j := 0; j < len(order); j++ {
				if i == j {
					continue
				}
				a, b := groups[order[i]], groups[order[j]]
				pairs++
				reused, narr := confirmPair(t, a.raw, b.raw)
				res.Executions++
				res.Transitions += 6
				if !reused {
					res.Notes["same key, not reused end-to-end"]++
					continue
				}
				sig := "URI collision: differ in " + a.loose.Diff(b.loose)
				if v, ok := viol[sig]; ok {
					v.Count++
					continue
				}
				viol[sig] = &mc.Violation{Property: "C03", Signature: sig, Count: 1, Shard: e.Shard, Log: narr,
					Message: fmt.Sprintf("a response stored for %q was returned for %q although the URIs are not equivalent (normal forms %s vs %s; both are looked up under store key %q)", a.raw, b.raw, a.loose, b.loose, k),
					Choices: []int{}, Trace: []mc.Pt{{Label: "store-url", Desc: strconv.Quote(a.raw)}, {Label: "request-url", Desc: strconv.Quote(b.raw)}}}
			}
		}
	}
	// ---- pass 3: the same lookups on ONE long-lived transport per authority block, in grammar order and in
	// reverse order (store emptied between requests). A key that differs from the one a fresh transport
	// derives means the key depends on the transport's history; every such case is confirmed end to end.
	seqObs, seqDiff := 0, 0
	for _, order := range []string{"forward", "reverse"} {
		blocks := map[int][]*uCase{}
		var ids []int
		for _, c := range cases {
			if c.auth%e.Shards != e.Shard {
				continue
			}
			if _, ok := blocks[c.auth]; !ok {
				ids = append(ids, c.auth)
			}
			blocks[c.auth] = append(blocks[c.auth], c)
		}
		for _, id := range ids {
			if !e.Deadline.IsZero() && time.Now().After(e.Deadline) { // the budget ended: report what was completed
				res.Exhaustive = false
				res.Notes["time budget ended inside the URI passes"]++
				break
			}
			blk := blocks[id]
			if order == "reverse" {
				r := make([]*uCase, len(blk))
				for i, c := range blk {
					r[len(blk)-1-i] = c
				}
				blk = r
			}
			type hit struct{ prev, cur *uCase }
			var cands []hit
			synctest.Test(t, func(t *testing.T) {
				w := world.New(world.Opt{})
				defer w.Close()
				w.NoWait = true
				answer(w, RS{Status: 200, H: H("Cache-Control", "no-store")})
				seenKey := map[string]*uCase{}
				for _, c := range blk {
					o := w.Do(world.Req("GET", c.raw))
					seqObs++
					if len(o.Ops) == 0 || o.Ops[0].Kind != "get" {
						continue
					}
					k := o.Ops[0].Key
					if k != c.key {
						seqDiff++
						if p, ok := seenKey[k]; ok {
							cands = append(cands, hit{p, c})
						}
					}
					if _, ok := seenKey[c.key]; !ok {
						seenKey[c.key] = c
					}
				}
			})
			res.Executions += int64(len(blk))
			res.Transitions += int64(2 * len(blk))
			for _, h := range cands {
				if h.prev.loose.String() == h.cur.loose.String() {
					continue // equivalent spellings may share
				}
				reused, narr := confirmSeq(t, h.prev.raw, h.cur.raw)
				pairs++
				if !reused {
					continue
				}
				sig := "URI collision on a used transport (" + order + " order): differ in " + h.prev.loose.Diff(h.cur.loose)
				if v, ok := viol[sig]; ok {
					v.Count++
					continue
				}
				viol[sig] = &mc.Violation{Property: "C03", Signature: sig, Count: 1, Shard: e.Shard, Log: narr,
					Message: fmt.Sprintf("on one transport, after a request for %q, a response stored for it was returned for %q although the URIs are not equivalent (normal forms %s vs %s)", h.prev.raw, h.cur.raw, h.prev.loose, h.cur.loose),
					Choices: []int{}, Trace: []mc.Pt{{Label: "store-url", Desc: strconv.Quote(h.prev.raw)}, {Label: "request-url", Desc: strconv.Quote(h.cur.raw)}}}
			}
		}
	}
	// ---- pass 4: end to end WITH storing, one store per authority block (plain http, no userinfo: every host and
	// port form): every URL of the block is fetched and stored, then fetched again. Whatever comes from the store must
	// have been minted for a URL with the same normal form — this also covers collisions below the primary key
	// (response ids, file names) that passes 1-3 cannot see.
	stored4 := 0
	{
		blocks := map[int][]*uCase{}
		var ids []int
		for _, c := range cases {
			if c.auth%e.Shards != e.Shard || c.u.Scheme != "http" || c.u.User != nil {
				continue
			}
			if _, ok := blocks[c.auth]; !ok {
				ids = append(ids, c.auth)
			}
			blocks[c.auth] = append(blocks[c.auth], c)
		}
		for _, id := range ids {
			if !e.Deadline.IsZero() && time.Now().After(e.Deadline) { // the budget ended: report what was completed
				res.Exhaustive = false
				res.Notes["time budget ended inside the URI passes"]++
				break
			}
			blk := blocks[id]
			synctest.Test(t, func(t *testing.T) {
				w := world.New(world.Opt{})
				defer w.Close()
				w.NoWait = true
				answer(w, RS{Status: 200, H: H("Cache-Control", "max-age=100000")})
				minted := map[string]*uCase{}
				for _, c := range blk {
					if o := w.Do(world.Req("GET", c.raw)); o.Tok != "" && len(o.Calls) > 0 {
						minted[o.Tok] = c
					}
				}
				for _, c := range blk {
					o := w.Do(world.Req("GET", c.raw))
					stored4++
					if o.Tok != "" && len(o.Calls) > 0 {
						minted[o.Tok] = c
						continue
					}
					from := minted[o.Tok]
					if o.Err != nil || o.Panic != nil || from == nil || from.loose.String() == c.loose.String() {
						continue
					}
					sig := "URI collision through a stored response: differ in " + from.loose.Diff(c.loose)
					if v, ok := viol[sig]; ok {
						v.Count++
						continue
					}
					viol[sig] = &mc.Violation{Property: "C03", Signature: sig, Count: 1, Shard: e.Shard,
						Message: fmt.Sprintf("with every URL of the authority fetched once, %q is answered from the store with the response minted for %q although the URIs are not equivalent (normal forms %s vs %s)", c.raw, from.raw, c.loose, from.loose),
						Choices: []int{}, Trace: []mc.Pt{{Label: "block", Desc: strconv.Itoa(id)}, {Label: "store-url", Desc: strconv.Quote(from.raw)}, {Label: "request-url", Desc: strconv.Quote(c.raw)}}}
				}
			})
			res.Executions += int64(2 * len(blk))
			res.Transitions += int64(4 * len(blk))
		}
	}
	// ---- long URLs that differ only at their far end (a key that is bounded or hashed must still tell them apart)
	if e.Shard == 1%e.Shards {
		for _, n := range []int{300, 1000, 2040, 2050, 3000, 9000} {
			base := "http://example.com/long?"
			for len(base) < n {
				base += string(rune('a' + len(base)%26))
			}
			for _, pair := range [][2]string{{base + "1", base + "2"}, {base, base + "x"}, {base + "&z=1", base + "&z=2"}} {
				synctest.Test(t, func(t *testing.T) {
					w := world.New(world.Opt{})
					defer w.Close()
					answer(w, RS{Status: 200, H: H("Cache-Control", "max-age=100000")})
					o1, o2 := get(w, pair[0]), get(w, pair[1])
					res.Executions++
					if o1.Tok != "" && o2.Err == nil && o2.Panic == nil && o2.Tok == o1.Tok && len(o2.Calls) == 0 {
						sig := "URI collision between long URLs that differ at their end"
						if v, ok := viol[sig]; ok {
							v.Count++
						} else {
							viol[sig] = &mc.Violation{Property: "C03", Signature: sig, Count: 1, Shard: e.Shard, Choices: []int{},
								Message: fmt.Sprintf("two URLs of about %d bytes that differ only in their last bytes share a stored response", n),
								Trace:   []mc.Pt{{Label: "store-url", Desc: strconv.Quote(pair[0])}, {Label: "request-url", Desc: strconv.Quote(pair[1])}}}
						}
					}
				})
			}
		}
	}
	// ---- URLs in opaque form (url.URL{Scheme, Host, Opaque}: net/http sends the opaque part as request-target to Host)
	if e.Shard == 0 {
		type ou struct{ scheme, host, opaque string }
		ous := []ou{{"http", "a.test", "/x"}, {"http", "b.test", "/x"}, {"https", "a.test", "/x"}, {"http", "a.test:8080", "/x"}, {"http", "a.test", "/y"}, {"http", "a.test", "//a.test/x"}, {"http", "a.test", "//b.test/x"}}
		for i, a := range ous {
			for j, b := range ous {
				if i == j {
					continue
				}
				synctest.Test(t, func(t *testing.T) {
					w := world.New(world.Opt{})
					defer w.Close()
					answer(w, RS{Status: 200, H: H("Cache-Control", "max-age=100000")})
					mk := func(o ou) *http.Request {
						r := world.Req("GET", "http://placeholder.test/")
						r.URL = &url.URL{Scheme: o.scheme, Host: o.host, Opaque: o.opaque}
						r.Host = o.host
						return r
					}
					o1 := w.Do(mk(a))
					o2 := w.Do(mk(b))
					res.Executions++
					if o1.Tok != "" && o2.Err == nil && o2.Panic == nil && o2.Tok == o1.Tok && len(o2.Calls) == 0 {
						sig := "URI collision between URLs in opaque form"
						if v, ok := viol[sig]; ok {
							v.Count++
						} else {
							viol[sig] = &mc.Violation{Property: "C03", Signature: sig, Count: 1, Shard: e.Shard, Choices: []int{},
								Message: fmt.Sprintf("the response stored for url.URL{Scheme:%q, Host:%q, Opaque:%q} was returned for url.URL{Scheme:%q, Host:%q, Opaque:%q}", a.scheme, a.host, a.opaque, b.scheme, b.host, b.opaque),
								Trace:   []mc.Pt{{Label: "opaque", Desc: fmt.Sprintf("%s|%s|%s|%s|%s|%s", a.scheme, a.host, a.opaque, b.scheme, b.host, b.opaque)}}}
						}
					}
				})
			}
		}
	}
	sigs := make([]string, 0, len(viol))
	for s := range viol {
		sigs = append(sigs, s)
	}
	sort.Strings(sigs)
	for _, s := range sigs {
		res.Violations = append(res.Violations, viol[s])
	}
	if res.Extra == nil {
		res.Extra = map[string]any{}
	}
	res.Extra["stored_lookups_per_authority_block"] = stored4
	res.Extra["lookups_on_long_lived_transports"] = seqObs
	res.Extra["history_dependent_keys"] = seqDiff
	if e.Shard == 0 { // identical in every shard: reported once (the runner sums numeric extras)
		res.Extra["urls_in_grammar"] = len(cases)
	}
	if e.Shard == 0 {
		res.Extra["distinct_store_keys"] = len(byKey)
	}
	res.Extra["key_collision_pairs_confirmed_end_to_end"] = pairs
	if len(res.Samples) < 3 && len(cases) > 0 {
		c := cases[len(cases)/3]
		res.Samples = append(res.Samples, map[string]any{"url": c.raw, "observed_store_key": c.key, "strict_form": c.strict.String(), "loose_form": c.loose.String(), "urls_sharing_the_key": len(byKey[c.key])})
	}
	res.WallS = time.Since(start).Seconds()
	return res
}

// runC03Methods: only a GET without Range may be answered from the store.
func runC03Methods(x *mc.X) {
	method := mc.Pick(x, "method", []string{"GET", "HEAD", "POST", "OPTIONS", "get", "QUERY", "PUT", "DELETE", "TRACE", "PROPFIND", "(left empty)"})
	// range units are case-insensitive, and a unit the cache does not know still makes it a range request
	rng := mc.Pick(x, "range", []string{"", "bytes=0-1", "bytes=0-", "Bytes=0-1", "BYTES=2-", "items=0-9", "bytes=0-0,-1", "\x00second-line"})
	state := mc.Pick(x, "stored", []string{"fresh", "stale+etag"})
	reqCC := mc.Pick(x, "request-cache-control", []string{"", "only-if-cached", "max-stale"})
	w := world.New(world.Opt{})
	defer w.Close()
	ccv := map[string]string{"fresh": "max-age=1000", "stale+etag": "max-age=1"}[state]
	answer(w, RS{Status: 200, H: H("Cache-Control", ccv, "ETag", `"v1"`)})
	o1 := get(w, U)
	logObs(x, "GET (origin: 200 "+ccv+")", o1)
	world.Advance(secs(10))
	answerFn(w, func(o *world.Origin, c *world.Call) (*http.Response, error) {
		if c.Header.Get("If-None-Match") != "" {
			return o.Respond(c, RS{Status: 304, NoTok: true}), nil
		}
		return o.Respond(c, RS{Status: 200, H: H("Cache-Control", "no-store")}), nil
	})
	req, err := http.NewRequest(strings.TrimSuffix(method, "(left empty)"), U, nil)
	if err != nil {
		x.Skip()
	}
	if method == "(left empty)" {
		req.Method = "" // net/http: "For client requests, an empty string means GET"
	}
	if rng == "\x00second-line" { // an empty first field line, the range on the second
		req.Header["Range"] = []string{"", "bytes=0-1"}
	} else if rng != "" {
		req.Header.Set("Range", rng)
	}
	if reqCC != "" {
		req.Header.Set("Cache-Control", reqCC)
	}
	o2 := w.Do(req)
	logObs(x, fmt.Sprintf("%s Range=%q Cache-Control=%q", method, rng, reqCC), o2)
	plain := (method == "GET" || method == "(left empty)") && rng == ""
	x.Nontrivial(fmt.Sprintf("%s/range=%v/%s", method, rng != "", state))
	x.State(method, rng, state, reqCC, obsClass(o2), fmt.Sprint(o2.Tok == o1.Tok))
	x.Sample(map[string]any{"method": method, "range": rng, "stored": state, "request_cache_control": reqCC, "observed": o2.String()})
	if o2.Panic != nil || o2.Err != nil {
		return
	}
	if !plain && o2.Tok != "" && o2.Tok == o1.Tok {
		x.Failf(fmt.Sprintf("stored response returned to a request that is not a plain GET (%s range=%v)", strings.ToUpper(method), rng != ""), "%s Range=%q received the response stored for GET: %s", method, rng, o2)
	}
}

// replayURLPair re-runs a recorded (store-url, request-url) pair; it fails if the response is reused.
func replayURLPair(t *testing.T, v *mc.Violation) bool {
	var a, b string
	for _, p := range v.Trace {
		switch p.Label {
		case "store-url":
			a, _ = strconv.Unquote(p.Desc)
		case "request-url":
			b, _ = strconv.Unquote(p.Desc)
		}
	}
	for _, p := range v.Trace {
		if p.Label == "opaque" {
			f := strings.Split(p.Desc, "|")
			hit := false
			synctest.Test(t, func(t *testing.T) {
				w := world.New(world.Opt{})
				defer w.Close()
				answer(w, RS{Status: 200, H: H("Cache-Control", "max-age=100000")})
				mk := func(s, h, o string) *http.Request {
					r := world.Req("GET", "http://placeholder.test/")
					r.URL = &url.URL{Scheme: s, Host: h, Opaque: o}
					r.Host = h
					return r
				}
				o1, o2 := w.Do(mk(f[0], f[1], f[2])), w.Do(mk(f[3], f[4], f[5]))
				fmt.Printf("  | GET {%s %s %s} -> %s\n  | GET {%s %s %s} -> %s\n", f[0], f[1], f[2], o1, f[3], f[4], f[5], o2)
				hit = o1.Tok != "" && o2.Tok == o1.Tok && len(o2.Calls) == 0
			})
			return hit
		}
		if p.Label == "block" { // found with every URL of the authority stored: both orders of storing the two
			hit := false
			for _, first := range [][2]string{{a, b}, {b, a}} {
				synctest.Test(t, func(t *testing.T) {
					w := world.New(world.Opt{})
					defer w.Close()
					answer(w, RS{Status: 200, H: H("Cache-Control", "max-age=100000")})
					o1, o2 := get(w, first[0]), get(w, first[1])
					toks := map[string]string{o1.Tok: first[0], o2.Tok: first[1]}
					o3 := get(w, b)
					fmt.Printf("  | GET %q -> %s\n  | GET %q -> %s\n  | GET %q -> %s\n", first[0], o1, first[1], o2, b, o3)
					if o3.Err == nil && len(o3.Calls) == 0 && toks[o3.Tok] == a {
						hit = true
					}
				})
			}
			return hit
		}
	}
	reused, narr := confirmPair(t, a, b)
	for _, l := range narr {
		fmt.Println("  |", l)
	}
	if v.Property == "C09" {
		return !reused
	}
	return reused
}
