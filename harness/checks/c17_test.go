package checks

import (
	"bytes"
	"crypto/rand"
	"encoding/base64"
	"fmt"
	"io/fs"
	"net/url"
	"os"
	"path/filepath"
	"sort"
	"strings"
	"time"

	"verifharness/mc"
	"verifharness/world"

	"github.com/bartventer/httpcache/store"
	"github.com/bartventer/httpcache/store/driver"
	"github.com/bartventer/httpcache/store/fscache"
)

// C17 — encryption at rest hides stored contents and rejects tampering.
func init() { register(&Check{ID: "C17", Run: runC17, ShardDepth: 3, NoBubble: true}) }

func c17Key(n int, fill byte) string {
	return base64.URLEncoding.EncodeToString(bytes.Repeat([]byte{fill}, n))
}

var c17Valid = c17Key(32, 0x11)

func c17Values() map[string][]byte {
	entry := "http://example.com/r#0\t2000-01-01T00:00:00Z\t2000-01-01T00:00:00Z\nHTTP/1.1 200 OK\r\nCache-Control: max-age=100\r\nContent-Length: 26\r\nX-Secret: TOPSECRETVALUE\r\n\r\nSECRET-BODY-PLAINTEXT-0001"
	v4k := bytes.Repeat([]byte("PLAINTEXT-BLOCK-0123456789abcdef"), 128)
	return map[string][]byte{
		"0B":    {},
		"1B":    []byte("S"),
		"40B":   []byte("forty-byte-plaintext-value-0123456789ABC"),
		"index": []byte(`[{"id":"http://example.com/r#0","vary":"","vary_resolved":null,"received_at":"2000-01-01T00:00:00Z"}]`),
		"entry": []byte(entry),
		"4KiB":  v4k,
	}
}

func c17Files(dir string) map[string][]byte {
	out := map[string][]byte{}
	_ = filepath.WalkDir(dir, func(p string, d fs.DirEntry, err error) error {
		if err == nil && !d.IsDir() {
			b, _ := os.ReadFile(p)
			out[p] = b
		}
		return nil
	})
	return out
}

// leaks reports an 8-byte window of plain that occurs in data.
func leaks(data, plain []byte) (int, bool) {
	if len(plain) < 8 {
		return 0, false
	}
	for i := 0; i+8 <= len(plain); i++ {
		if bytes.Contains(data, plain[i:i+8]) {
			return i, true
		}
	}
	return 0, false
}

func runC17(x *mc.X) {
	mode := mc.Pick(x, "mode", []string{"tamper", "configurations", "transport"})
	switch mode {
	case "tamper":
		runC17Tamper(x)
	case "configurations":
		runC17Config(x)
	case "transport":
		runC17Transport(x)
	}
}

func c17Dir() string {
	d, err := os.MkdirTemp(os.Getenv("VERIF_SCRATCH"), "c17-")
	if err != nil {
		panic(err)
	}
	return d
}

func runC17Tamper(x *mc.X) {
	vname := mc.Pick(x, "value", []string{"0B", "1B", "40B", "index", "entry", "4KiB"})
	keyLen := mc.Pick(x, "key-bytes", []int{16, 24, 32})
	family := mc.Pick(x, "family", []string{"substitute", "truncate", "extend", "xor-two-positions", "wrong-key", "same-value-twice"})
	mtime := x.Choose("update_mtime", 2) == 1
	val := c17Values()[vname]
	dir := c17Dir()
	defer os.RemoveAll(dir)
	conn, err := fscache.Open("app", fscache.WithBaseDir(dir), fscache.WithEncryption(c17Key(keyLen, 0x11)), fscache.WithUpdateMTime(mtime))
	if err != nil {
		x.Failf("open with a valid key failed", "%v", err)
		return
	}
	const key = "http://example.com/r#0"
	if err := conn.Set(key, val); err != nil {
		x.Failf("Set failed", "%v", err)
		return
	}
	files := c17Files(dir)
	if len(files) != 1 {
		x.Failf("unexpected files", "%d files after one Set", len(files))
		return
	}
	var path string
	var orig []byte
	for p, b := range files {
		path, orig = p, b
	}
	if off, bad := leaks(orig, val); bad {
		x.Failf("plaintext fragment in an encrypted file", "value %s: bytes %q of the plaintext occur in %s", vname, val[off:off+8], filepath.Base(path))
		return
	}
	if got, err := conn.Get(key); err != nil || !bytes.Equal(got, val) {
		x.Failf("round trip failed", "Get after Set: %v", err)
		return
	}
	mutants, rejected := 0, 0
	try := func(desc string, data []byte) bool {
		mutants++
		if err := os.WriteFile(path, data, 0o644); err != nil {
			panic(err)
		}
		got, err := conn.Get(key)
		if err == nil {
			x.Failf("tampered file accepted: "+family, "value %s, key %d bytes, %s: Get returned %d bytes %q", vname, keyLen, desc, len(got), clipB(got))
			return false
		}
		rejected++
		return true
	}
	switch family {
	case "substitute":
		// chunks of offsets are separate executions so that shards share the work
		chunk := 64
		nChunks := (len(orig) + chunk - 1) / chunk
		ci := x.Choose("offset-chunk", nChunks)
		var bytevals []int
		if len(orig) <= 600 || x.Tier() == "thorough" {
			for b := 0; b < 256; b++ {
				bytevals = append(bytevals, b)
			}
		}
		for off := ci * chunk; off < min(len(orig), (ci+1)*chunk); off++ {
			if bytevals != nil {
				for _, b := range bytevals {
					if byte(b) == orig[off] {
						continue
					}
					m := append([]byte(nil), orig...)
					m[off] = byte(b)
					if !try(fmt.Sprintf("byte %d set to %#x", off, b), m) {
						return
					}
				}
			} else {
				for _, b := range []byte{orig[off] ^ 0x01, orig[off] ^ 0x80, 0x00, 0xFF} {
					if b == orig[off] {
						continue
					}
					m := append([]byte(nil), orig...)
					m[off] = b
					if !try(fmt.Sprintf("byte %d set to %#x", off, b), m) {
						return
					}
				}
			}
		}
	case "truncate":
		for k := 0; k < len(orig); k++ {
			if !try(fmt.Sprintf("truncated to %d of %d bytes", k, len(orig)), orig[:k]) {
				return
			}
		}
	case "extend":
		for n := 1; n <= 32; n++ {
			for _, fill := range []byte{0x00, 0xFF, orig[len(orig)-1]} {
				if !try(fmt.Sprintf("extended by %d x %#x", n, fill), append(append([]byte(nil), orig...), bytes.Repeat([]byte{fill}, n)...)) {
					return
				}
			}
			if !try(fmt.Sprintf("extended by its own first %d bytes", n), append(append([]byte(nil), orig...), orig[:min(n, len(orig))]...)) {
				return
			}
		}
	case "xor-two-positions":
		var pos []int
		for i := 0; i < min(12, len(orig)); i++ {
			pos = append(pos, i) // nonce
		}
		for i := max(12, len(orig)-16); i < len(orig); i++ {
			pos = append(pos, i) // tag
		}
		for g := 0; g < 16; g++ {
			if p := 12 + g*(len(orig)-28)/16; p >= 12 && p < len(orig)-16 {
				pos = append(pos, p)
			}
		}
		for i := 0; i < len(pos); i++ {
			for j := i + 1; j < len(pos); j++ {
				if pos[i] == pos[j] {
					continue
				}
				m := append([]byte(nil), orig...)
				m[pos[i]] ^= 0x01
				m[pos[j]] ^= 0x01
				if !try(fmt.Sprintf("bytes %d and %d flipped", pos[i], pos[j]), m) {
					return
				}
			}
		}
	case "wrong-key":
		for _, kl := range []int{16, 24, 32} {
			for _, fill := range []byte{0x12, 0x00, 0xFF} {
				other, err := fscache.Open("app", fscache.WithBaseDir(dir), fscache.WithEncryption(c17Key(kl, fill)), fscache.WithUpdateMTime(mtime))
				if err != nil {
					x.Failf("open with another valid key failed", "%v", err)
					return
				}
				mutants++
				if got, err := other.Get(key); err == nil {
					x.Failf("wrong key yields data", "a %d-byte key different from the writing key returned %d bytes", kl, len(got))
					return
				}
				rejected++
			}
		}
		// keys that differ from the writing key in one byte only (they share almost all of their text)
		for _, at := range []int{0, keyLen / 2, keyLen - 1} {
			kb := bytes.Repeat([]byte{0x11}, keyLen)
			kb[at] ^= 0x01
			other, err := fscache.Open("app", fscache.WithBaseDir(dir), fscache.WithEncryption(base64.URLEncoding.EncodeToString(kb)), fscache.WithUpdateMTime(mtime))
			if err != nil {
				x.Failf("open with another valid key failed", "%v", err)
				return
			}
			mutants++
			if got, err := other.Get(key); err == nil {
				x.Failf("wrong key yields data", "a key that differs from the writing key in byte %d only returned %d bytes", at, len(got))
				return
			}
			rejected++
		}
		// and without any key the bytes are not the value
		plain, _ := fscache.Open("app", fscache.WithBaseDir(dir))
		if got, err := plain.Get(key); err == nil && bytes.Equal(got, val) {
			x.Failf("value readable without a key", "")
		}
	case "same-value-twice":
		seen := map[string]bool{string(orig): true}
		for i := 0; i < 64; i++ {
			mutants++
			if err := conn.Set(key, val); err != nil {
				x.Failf("Set failed", "%v", err)
				return
			}
			b, _ := os.ReadFile(path)
			if seen[string(b)] {
				x.Failf("identical ciphertext for two writes of the same value", "write %d of value %s repeated an earlier file byte for byte", i+2, vname)
				return
			}
			seen[string(b)] = true
			rejected++
		}
	}
	x.Transitions(mutants)
	x.Evals(mutants)
	x.Nontrivial(fmt.Sprintf("%s/%s/key%d/mtime=%v", family, vname, keyLen, mtime))
	x.State(family, vname, fmt.Sprint(keyLen, mtime), fmt.Sprint(mutants == rejected))
	x.Sample(map[string]any{"family": family, "value": vname, "key_bytes": keyLen, "file_bytes": len(orig), "mutants": mutants, "rejected": rejected})
}

type c17KeySpec struct {
	name   string
	key    string
	usable bool
}

func c17KeySpecs() []c17KeySpec {
	std := base64.StdEncoding.EncodeToString(bytes.Repeat([]byte{0xfb, 0xff, 0xfe}, 11)[:32]) // contains '+' or '/'
	return []c17KeySpec{
		{"valid16", c17Key(16, 0x21), true}, {"valid24", c17Key(24, 0x22), true}, {"valid32", c17Key(32, 0x23), true},
		{"empty", "", false}, {"bad-base64", "!!!not-base64!!!", false}, {"std-alphabet", std, false},
		{"blank-space", " ", false}, {"blank-newline", "\n", false}, {"blank-tab-crlf", "\t\r\n", false},
		{"10-bytes", c17Key(10, 0x24), false}, {"33-bytes", c17Key(33, 0x25), false}, {"unpadded32", strings.TrimRight(c17Key(32, 0x26), "="), false},
		// malformed keys that BEGIN like a valid one: a decoder that stops at the first illegal byte must not leave a "usable" prefix behind
		{"valid32+junk", c17Key(32, 0x27) + "junk", false}, {"valid16+x", c17Key(16, 0x28) + "x", false}, {"valid24+valid24", c17Key(24, 0x29) + c17Key(24, 0x29), false},
		{"32-legal-chars-then-illegal", c17Key(32, 0x2a)[:32] + "!!!!!!!!!!!=", false}, {"illegal-at-offset-33", c17Key(32, 0x2b)[:33] + "*" + c17Key(32, 0x2b)[34:], false},
	}
}

func runC17Config(x *mc.X) {
	source := mc.Pick(x, "source", []string{"option", "dsn"})
	specs := c17KeySpecs()
	encrypt := "on"
	if source == "dsn" {
		encrypt = mc.Pick(x, "dsn.encrypt", []string{"on", "aesgcm", "", "off"})
	}
	// another option / parameter AFTER the encryption one (options are applied in order; an error must not get lost on the way)
	mtimeAfter := x.Choose("update_mtime-after-encryption", 2) == 1
	ki := x.Choose("key", len(specs)+1) // last = parameter absent (dsn only)
	envi := x.Choose("env.FSCACHE_ENCRYPT_KEY", len(specs)+1)
	if source == "option" && ki == len(specs) {
		x.Skip()
	}
	dir := c17Dir()
	defer os.RemoveAll(dir)
	if envi < len(specs) {
		os.Setenv("FSCACHE_ENCRYPT_KEY", specs[envi].key)
	} else {
		os.Unsetenv("FSCACHE_ENCRYPT_KEY")
	}
	defer os.Unsetenv("FSCACHE_ENCRYPT_KEY")
	var conn driver.Conn
	var err error
	asks := true
	var eff *c17KeySpec
	if source == "option" {
		eff = &specs[ki]
		opts := []fscache.Option{fscache.WithBaseDir(dir), fscache.WithEncryption(specs[ki].key)}
		if mtimeAfter {
			opts = append(opts, fscache.WithUpdateMTime(true), fscache.WithTimeout(time.Minute))
		}
		conn, err = fscache.Open("app", opts...)
	} else {
		asks = encrypt == "on" || encrypt == "aesgcm"
		q := url.Values{"appname": {"app"}}
		if encrypt != "" {
			q.Set("encrypt", encrypt)
		}
		if ki < len(specs) {
			q.Set("encrypt_key", specs[ki].key)
			if specs[ki].key != "" {
				eff = &specs[ki]
			}
		}
		if eff == nil && envi < len(specs) && specs[envi].key != "" {
			eff = &specs[envi]
		}
		if mtimeAfter {
			q.Set("update_mtime", "on")
			q.Set("timeout", "1m")
		}
		conn, err = store.Open("fscache://" + dir + "?" + q.Encode())
	}
	usable := eff != nil && eff.usable
	desc := fmt.Sprintf("source=%s encrypt=%q key=%s env=%s%s", source, encrypt, specName(specs, ki), specName(specs, envi), ifs(mtimeAfter, " +update_mtime,timeout"))
	x.Nontrivial(fmt.Sprintf("%s/asks=%v/usable=%v", source, asks, usable))
	x.State(desc, fmt.Sprint(err == nil))
	x.Evals(1)
	x.Sample(map[string]any{"configuration": desc, "asks_for_encryption": asks, "usable_key": usable, "open_error": fmt.Sprint(err)})
	if !asks {
		if err != nil {
			x.Note("plain configuration failed to open")
		}
		return
	}
	if !usable {
		if err == nil {
			// the decisive question: is anything written in the clear?
			val := c17Values()["40B"]
			_ = conn.Set("k", val)
			for p, b := range c17Files(dir) {
				if _, bad := leaks(b, val); bad || bytes.Contains(b, val) {
					x.Failf("encryption requested without a usable key stores plaintext", "%s: open succeeded and %s holds the value in the clear", desc, filepath.Base(p))
					return
				}
			}
			x.Failf("encryption requested without a usable key does not fail at open", "%s: open succeeded", desc)
		}
		return
	}
	if err != nil {
		x.Failf("usable key rejected", "%s: %v", desc, err)
		return
	}
	val := c17Values()["entry"]
	if err := conn.Set("k", val); err != nil {
		x.Failf("Set failed", "%s: %v", desc, err)
		return
	}
	for p, b := range c17Files(dir) {
		if off, bad := leaks(b, val); bad {
			x.Failf("plaintext fragment in a file although encryption is enabled", "%s: %q found in %s", desc, val[off:off+8], filepath.Base(p))
		}
	}
}

func specName(specs []c17KeySpec, i int) string {
	if i >= len(specs) {
		return "absent"
	}
	return specs[i].name
}

// runC17Transport: a tampered file makes the transport answer from the origin.
// runC17Swap: a stored file is replaced by ANOTHER intact file of the same cache (same key, valid ciphertext): the file of
// one URI copied over the file of another one is an alteration of that file like any other, and must not be served.
func runC17Swap(x *mc.X) {
	what := mc.Pick(x, "replaced", []string{"entry by the other URI's entry", "index by the other URI's index", "both files by the other URI's files"})
	dir := c17Dir()
	defer os.RemoveAll(dir)
	dsn := "fscache://" + dir + "?appname=app&encrypt=on&encrypt_key=" + c17Valid
	w := world.New(world.Opt{DSN: dsn})
	w.NoWait = true
	const U2 = "http://example.com/another"
	answer(w, RS{Status: 200, H: H("Cache-Control", "max-age=100000"), Body: []byte("tokX|body of the first resource")})
	o1 := get(w, U)
	f1 := c17Files(dir)
	answer(w, RS{Status: 200, H: H("Cache-Control", "max-age=100000"), Body: []byte("tokY|body of the other resource")})
	o2 := get(w, U2)
	f2 := c17Files(dir)
	if o1.Err != nil || o2.Err != nil || len(f1) != 2 || len(f2) != 4 {
		x.Failf("harness: expected two files per stored resource", "%d then %d files", len(f1), len(f2))
		return
	}
	split := func(fs map[string][]byte, skip map[string][]byte) (idx, ent string) {
		var ps []string
		for p := range fs {
			if _, ok := skip[p]; !ok {
				ps = append(ps, p)
			}
		}
		sort.Slice(ps, func(i, j int) bool { return len(fs[ps[i]]) < len(fs[ps[j]]) })
		return ps[0], ps[1] // the index is the smaller file
	}
	idx1, ent1 := split(f1, nil)
	idx2, ent2 := split(f2, f1)
	switch what {
	case "entry by the other URI's entry":
		_ = os.WriteFile(ent1, f2[ent2], 0o644)
	case "index by the other URI's index":
		_ = os.WriteFile(idx1, f2[idx2], 0o644)
	default:
		_ = os.WriteFile(ent1, f2[ent2], 0o644)
		_ = os.WriteFile(idx1, f2[idx2], 0o644)
	}
	answer(w, RS{Status: 200, H: H("Cache-Control", "no-store"), Body: []byte("tokZ|fresh from the origin")})
	o := get(w, U)
	logObs(x, "GET of the first resource after "+what, o)
	x.Evals(1)
	x.Nontrivial("swap/" + what)
	x.State("swap", what, obsClass(o))
	if o.Panic != nil {
		x.Failf("transport panicked on a replaced file", "%v", o.Panic)
		return
	}
	if o.Err == nil && bytes.HasPrefix(o.Body, []byte("tokY")) {
		x.Failf("a file copied over another one inside the cache is served ("+what+")", "GET %s returned the response stored for %s: %s", U, U2, o)
	}
}

func runC17Transport(x *mc.X) {
	which := mc.Pick(x, "file", []string{"index", "entry", "swapped"})
	if which == "swapped" {
		runC17Swap(x)
		return
	}
	dir := c17Dir()
	defer os.RemoveAll(dir)
	dsn := "fscache://" + dir + "?appname=app&encrypt=on&encrypt_key=" + c17Valid
	w := world.New(world.Opt{DSN: dsn})
	w.NoWait = true
	answer(w, RS{Status: 200, H: H("Cache-Control", "max-age=100000", "X-Secret", "TOPSECRETVALUE"), Body: []byte("tokX|SECRET-BODY-PLAINTEXT-0001")})
	o1 := get(w, U)
	if o1.Err != nil {
		x.Failf("harness: store failed", "%v", o1.Err)
		return
	}
	files := c17Files(dir)
	if len(files) != 2 {
		x.Failf("harness: expected index and entry files", "%d files", len(files))
		return
	}
	var paths []string
	for p := range files {
		paths = append(paths, p)
	}
	sort.Slice(paths, func(i, j int) bool { return len(files[paths[i]]) < len(files[paths[j]]) })
	target := paths[0] // the index is the smaller file
	if which == "entry" {
		target = paths[1]
	}
	for p, b := range files {
		for _, plain := range [][]byte{[]byte("SECRET-BODY-PLAINTEXT-0001"), []byte("TOPSECRETVALUE"), []byte("example.com"), []byte("max-age=100000")} {
			if _, bad := leaks(b, plain); bad {
				x.Failf("plaintext fragment in a file written through the transport", "%q occurs in %s", plain, filepath.Base(p))
				return
			}
		}
	}
	orig := files[target]
	// a fixed number of slices of the file (its length varies by a few bytes with the wall-clock timestamps in it)
	const nSlices = 12
	ci := x.Choose("offset-slice", nSlices+1)
	restore := func() {
		for p, b := range files {
			_ = os.WriteFile(p, b, 0o644)
		}
	}
	mutants := 0
	probe := func(desc string, data []byte) bool {
		restore()
		_ = os.WriteFile(target, data, 0o644)
		mutants++
		answer(w, RS{Status: 200, H: H("Cache-Control", "no-store")})
		o := get(w, U)
		if o.Panic != nil {
			x.Failf("transport panicked on a tampered file", "%s: %v", desc, o.Panic)
			return false
		}
		if o.Err != nil || len(o.Calls) != 1 || o.Tok == "tokX" {
			x.Failf("tampered "+which+" file not treated as a miss", "%s: expected the origin's fresh response, got %s", desc, o)
			return false
		}
		return true
	}
	if ci == nSlices {
		// truncations and extensions
		for k := 0; k < len(orig); k += max(1, len(orig)/64) {
			if !probe(fmt.Sprintf("truncated to %d", k), orig[:k]) {
				return
			}
		}
		for _, n := range []int{1, 16, 32} {
			if !probe(fmt.Sprintf("extended by %d", n), append(append([]byte(nil), orig...), make([]byte, n)...)) {
				return
			}
		}
	} else {
		for off := ci * len(orig) / nSlices; off < (ci+1)*len(orig)/nSlices; off++ {
			for _, b := range []byte{orig[off] ^ 0x01, orig[off] ^ 0x80} {
				m := append([]byte(nil), orig...)
				m[off] = b
				if !probe(fmt.Sprintf("byte %d set to %#x", off, b), m) {
					return
				}
			}
		}
	}
	// control: the untouched files still give a hit
	restore()
	oc := get(w, U)
	if oc.Err != nil || oc.Tok != "tokX" || len(oc.Calls) != 0 {
		x.Failf("harness: untouched files no longer hit", "%s", oc)
	}
	x.Transitions(mutants)
	x.Evals(mutants)
	x.Nontrivial("transport/" + which)
	x.State("transport", which, fmt.Sprint(ci))
	x.Sample(map[string]any{"tampered_file": which, "file_bytes": len(orig), "mutants": mutants})
}

var _ = rand.Reader
