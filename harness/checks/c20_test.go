package checks

import (
	"context"
	"fmt"
	"io"
	"net/http"
	"runtime"
	"strings"
	"time"

	"verifharness/mc"
	"verifharness/world"
)

// C20 — stale-while-revalidate answers at once and revalidates once, within the timeout.
func init() { register(&Check{ID: "C20", Run: runC20, ShardDepth: 3, LeaksMatter: true}) }

func bubbleGoroutines() (n int, dump string) {
	// the current goroutine's header names this execution's bubble
	var me [256]byte
	hdr := string(me[:runtime.Stack(me[:], false)])
	bubble := ""
	if i := strings.Index(hdr, "synctest bubble "); i >= 0 {
		bubble = hdr[i:]
		if j := strings.IndexAny(bubble, "]\n,"); j >= 0 {
			bubble = bubble[:j]
		}
	}
	buf := make([]byte, 4<<20)
	buf = buf[:runtime.Stack(buf, true)]
	for _, g := range strings.Split(string(buf), "\n\n") {
		if h := strings.SplitN(g, "\n", 2)[0]; bubble != "" && strings.Contains(h, bubble+"]") || strings.Contains(h, bubble+",") {
			n++
			dump += strings.SplitN(g, "\n", 2)[0] + " | "
		}
	}
	return
}

func teffOf(tset string) time.Duration {
	switch tset {
	case "1s":
		return time.Second
	case "10s":
		return 10 * time.Second
	case "500µs":
		return 500 * time.Microsecond
	}
	return 5 * time.Second
}

func runC20(x *mc.X) {
	if m := mc.Pick(x, "mode", []string{"product", "burst of stale hits while the origin hangs", "stored response without a body and without Content-Length", "client sends preconditions of its own"}); m != "product" {
		runC20Special(x, m)
		return
	}
	tset := mc.Pick(x, "swr-timeout-option", []string{"unset", "0", "-1s", "1s", "10s", "500µs"})
	lat := mc.Pick(x, "origin-latency", []string{"0", "1s", "T-1ns", "T+1ns", "2T", "never"})
	outcome := mc.Pick(x, "background-outcome", []string{"304", "200", "500", "error", "body-error"})
	validators := mc.Pick(x, "validators", []string{"etag", "lm", "both", "none"})
	cctx := mc.Pick(x, "caller-context", []string{"background", "cancelled-before", "cancelled-after-return", "cancelled-at-T/2", "deadline-before-answer", "deadline-long-after-the-timeout"})
	second := mc.Pick(x, "second-request", []string{"none", "during", "after"})
	logger := mc.Pick(x, "logger", []string{"", "text"})
	window := mc.Pick(x, "swr-window", []string{"100000", "7"}) // 7: only 2 s of the window are left when the stale response is served
	qualified := x.Choose("stored-no-cache-names-the-validators", 2) == 1
	// once the body is closed the caller may reuse its request object (net/http.RoundTripper): it changes a field and the URL
	reuse := x.Choose("caller-reuses-its-request-object", 2) == 1
	if reuse && !(second == "none" && cctx == "background" && (x.Tier() == "thorough" || (logger == "" && window == "100000" && !qualified)) && lat == "1s" && teffOf(tset) > time.Second) {
		x.Skip()
	}
	if window == "7" && second != "none" {
		x.Skip() // a later request would fall outside the window and be validated in the foreground
	}

	opt := world.Opt{Logger: logger}
	teff := 5 * time.Second
	switch tset {
	case "0":
		d := time.Duration(0)
		opt.SWRTimeout = &d
	case "-1s":
		d := -time.Second
		opt.SWRTimeout = &d
	case "1s":
		d := time.Second
		opt.SWRTimeout, teff = &d, d
	case "10s":
		d := 10 * time.Second
		opt.SWRTimeout, teff = &d, d
	case "500µs": // positive, however small: it is the timeout
		d := 500 * time.Microsecond
		opt.SWRTimeout, teff = &d, d
	}
	var L time.Duration
	never := false
	switch lat {
	case "0":
	case "1s":
		L = time.Second
	case "T-1ns":
		L = teff - 1
	case "T+1ns":
		L = teff + 1
	case "2T":
		L = 2 * teff
	case "never":
		never = true
	}
	if L == teff {
		x.Skip() // the exact tie: either order is legitimate
	}
	w := world.New(opt)
	defer w.Close()
	baseline, _ := bubbleGoroutines()
	lm := httpDate(w.Epoch.Add(-secs(1000)))
	h := H("Cache-Control", cc("max-age=5", "stale-while-revalidate="+window, ifs(qualified, `no-cache="ETag, Last-Modified"`)))
	if validators == "etag" || validators == "both" {
		h = append(h, [2]string{"ETag", `"v1"`})
	}
	if validators == "lm" || validators == "both" {
		h = append(h, [2]string{"Last-Modified", lm})
	}
	answer(w, RS{Status: 200, H: h})
	o1 := get(w, U)
	logObs(x, "GET (stored, stale-while-revalidate)", o1)
	world.Advance(secs(10))

	type bgCall struct {
		tag      string
		start    time.Time
		doneAt   time.Duration // when its context ended, relative to start (-1: never observed)
		answered bool
		cond     string
	}
	var bgs []*bgCall
	sharedWithCaller := ""
	answerFn(w, func(o *world.Origin, c *world.Call) (*http.Response, error) {
		b := &bgCall{tag: c.Header.Get("X-Req"), start: time.Now(), doneAt: -1, cond: fmt.Sprintf("inm=%q ims=%q", c.Header.Get("If-None-Match"), c.Header.Get("If-Modified-Since"))}
		bgs = append(bgs, b)
		ctx := c.Req.Context()
		if never {
			<-ctx.Done()
			b.doneAt = time.Since(b.start)
			return nil, ctx.Err()
		}
		if L > 0 {
			tm := time.NewTimer(L)
			select {
			case <-tm.C:
			case <-ctx.Done():
				tm.Stop()
				b.doneAt = time.Since(b.start)
				return nil, ctx.Err()
			}
		} else if ctx.Err() != nil {
			b.doneAt = 0
			return nil, ctx.Err()
		}
		b.answered = true
		if live := c.Req.Header.Get("X-Req"); live != b.tag || c.Req.URL.String() != c.URL {
			sharedWithCaller = fmt.Sprintf("the request that reached the origin as %s (X-Req: %s) reads %s (X-Req: %s) when the origin answers", c.URL, b.tag, c.Req.URL, live)
		}
		switch outcome {
		case "304":
			if c.Header.Get("If-None-Match") != "" || c.Header.Get("If-Modified-Since") != "" {
				return o.Respond(c, RS{Status: 304, NoTok: true, H: H("Cache-Control", cc("max-age=5", "stale-while-revalidate="+window))}), nil
			}
			return o.Respond(c, RS{Status: 200, H: h}), nil
		case "200":
			return o.Respond(c, RS{Status: 200, H: h}), nil
		case "500":
			return o.Respond(c, RS{Status: 500}), nil
		case "error":
			return nil, errOrigin
		}
		return o.Respond(c, RS{Status: 200, H: h, BodyErr: io.ErrUnexpectedEOF, FailAt: 3}), nil
	})

	ctx, cancel := context.WithCancel(context.Background())
	defer cancel()
	var callerEnds time.Duration = -1 // when the caller's context ends, relative to the call
	switch cctx {
	case "cancelled-before":
		cancel()
		callerEnds = 0
	case "deadline-before-answer":
		d := teff / 4
		if !never && L > 0 && L/2 < d {
			d = L / 2
		}
		var c2 context.CancelFunc
		ctx, c2 = context.WithTimeout(ctx, d)
		defer c2()
		callerEnds = d
	}
	if cctx == "deadline-long-after-the-timeout" { // e.g. http.Client.Timeout: the caller's deadline does not replace the cache's own
		var c2 context.CancelFunc
		ctx, c2 = context.WithTimeout(ctx, 10*teff)
		defer c2()
		callerEnds = 10 * teff
	}
	req := world.Req("GET", U, "X-Req", "first").WithContext(ctx)
	w.NoWait = true
	t0 := time.Now()
	o2 := w.Do(req)
	took := time.Since(t0)
	world.Quiesce() // the background request reaches the origin (and waits there) before anything else happens
	if reuse {
		req.Header.Set("X-Req", "reused-by-caller")
		req.Header.Set("If-None-Match", `"callers-next"`)
		req.URL.RawQuery = "page=2"
	}
	switch cctx {
	case "cancelled-after-return":
		cancel()
		callerEnds = 0
	case "cancelled-at-T/2":
		go func() { time.Sleep(teff / 2); cancel() }()
		callerEnds = teff / 2
	}
	stale := 0
	check := func(o *world.Obs, took time.Duration, what string) {
		if o.Panic != nil || o.Err != nil || o.Tok != o1.Tok || o.CacheStatus != "STALE" {
			x.Failf("stale response not served under stale-while-revalidate ("+what+")", "caller context %s, background %s/%s: %s", cctx, lat, outcome, o)
			return
		}
		stale++
		if took != 0 {
			x.Failf("foreground response waited for the origin ("+what+")", "the call took %v of virtual time (origin latency %s)", took, lat)
		}
	}
	check(o2, took, "first request")
	if x.Failed() {
		return
	}
	if second == "during" {
		t1 := time.Now()
		o3 := w.Do(world.Req("GET", U, "X-Req", "second"))
		if len(bgs) > 0 && bgs[0].answered {
			// the first revalidation is already over (zero latency): whatever the store now holds is served
			if o3.CacheStatus == "STALE" {
				stale++
			}
		} else {
			check(o3, time.Since(t1), "second request during the revalidation")
		}
		world.Quiesce()
	}
	if reuse && (outcome == "304" || outcome == "200") {
		// the revalidation result is written back for the request it was made for: one second after it the original request is served fresh
		world.Advance(L + time.Second)
		o4 := w.Do(world.Req("GET", U, "X-Req", "after"))
		x.Logf("same request again 1 s after the background revalidation -> %s", o4)
		if o4.Err == nil && o4.Panic == nil && (o4.CacheStatus != "HIT" || len(o4.Calls) != 0) {
			x.Failf("background revalidation result not stored for the request it was made for", "the caller reused its request object meanwhile; the original request is now answered %s", o4)
			return
		}
	}
	// let everything run its course: beyond the latency and the timeout
	world.Advance(2*teff + 3*time.Second)
	if second == "after" {
		o3 := w.Do(world.Req("GET", U, "X-Req", "second"))
		world.Advance(2*teff + 3*time.Second)
		if o3.CacheStatus == "STALE" {
			stale++
		}
		x.Logf("second request afterwards -> %s", o3)
	}
	world.Advance(2*teff + 3*time.Second)
	for i, b := range bgs {
		x.Logf("background call %d: %s answered=%v context ended after %v", i, b.cond, b.answered, b.doneAt)
	}
	cls := fmt.Sprintf("T=%s/L=%s/%s/ctx=%s/second=%s", tset, lat, outcome, cctx, second)
	x.Nontrivial(fmt.Sprintf("T=%s/L=%s/%s/ctx=%s", tset, lat, outcome, cctx))
	x.State(cls, validators, fmt.Sprint(len(bgs)))
	x.Transitions(2 + len(bgs))
	x.Sample(map[string]any{"swr_timeout_option": tset, "effective_timeout": teff.String(), "origin_latency": lat, "background_outcome": outcome, "caller_context": cctx, "second_request": second, "background_calls": len(bgs)})
	if sharedWithCaller != "" {
		x.Failf("background revalidation works on the caller's request object", "%s", sharedWithCaller)
		return
	}
	if len(bgs) != stale {
		x.Failf(fmt.Sprintf("%d background revalidation requests for %d stale responses served", len(bgs), stale), "T=%s L=%s outcome=%s ctx=%s second=%s", tset, lat, outcome, cctx, second)
		return
	}
	wantCond := fmt.Sprintf("inm=%q ims=%q", map[bool]string{true: `"v1"`}[validators == "etag" || validators == "both"], map[bool]string{true: lm}[validators == "lm" || validators == "both"])
	for i, b := range bgs {
		if b.tag == "first" && b.cond != wantCond {
			x.Failf("background revalidation not conditional on the stored validators ("+validators+")", "sent %s, want %s", b.cond, wantCond)
		}
		if b.answered {
			continue
		}
		// unanswered: the context must have ended at the effective timeout — earlier only together with the caller's own
		// context (a background request that is detached from the caller's context and runs until the timeout is fine too)
		withCaller := b.tag == "first" && callerEnds >= 0 && callerEnds < teff && b.doneAt == callerEnds
		if b.doneAt != teff && !withCaller {
			x.Failf(fmt.Sprintf("background request not cancelled at the timeout (option %s)", tset), "call %d: context ended after %v, want %v (effective timeout %v, caller context %s ending after %v)", i, b.doneAt, teff, teff, cctx, callerEnds)
		}
	}
	cancel()
	world.Quiesce()
	if n, dump := bubbleGoroutines(); n > baseline {
		x.Failf("goroutine outlives the background request", "%d goroutines in the bubble after everything ended (%d before the first request): %s", n, baseline, dump)
	}
}

// runC20Special: (a) twenty stale hits in a row while the origin never answers — none of them may wait; (b) a stored
// response with an empty body of unknown length; (c) a client that sends its own preconditions — the background request
// still carries the STORED validators.
func runC20Special(x *mc.X, mode string) {
	validators := mc.Pick(x, "validators", []string{"etag", "lm", "both"})
	w := world.New(world.Opt{})
	defer w.Close()
	lm := httpDate(w.Epoch.Add(-secs(1000)))
	h := H("Cache-Control", "max-age=5, stale-while-revalidate=100000")
	if validators != "lm" {
		h = append(h, [2]string{"ETag", `"v1"`})
	}
	if validators != "etag" {
		h = append(h, [2]string{"Last-Modified", lm})
	}
	spec := RS{Status: 200, H: h}
	if mode == "stored response without a body and without Content-Length" {
		spec.Body, spec.UnknownCL, spec.NoTok = []byte{}, true, false
	}
	answer(w, spec)
	o1 := get(w, U)
	logObs(x, "GET (stored, stale-while-revalidate)", o1)
	world.Advance(secs(10))
	var conds []string
	answerFn(w, func(o *world.Origin, c *world.Call) (*http.Response, error) {
		conds = append(conds, fmt.Sprintf("inm=%q ims=%q", c.Header.Get("If-None-Match"), c.Header.Get("If-Modified-Since")))
		<-c.Req.Context().Done() // the origin never answers
		return nil, c.Req.Context().Err()
	})
	n := 1
	if mode == "burst of stale hits while the origin hangs" {
		n = 20
	}
	w.NoWait = true
	for i := 0; i < n; i++ {
		req := world.Req("GET", U, "X-Req", fmt.Sprint(i))
		if mode == "client sends preconditions of its own" {
			req.Header.Set("If-None-Match", `"clients-own"`)
			req.Header.Set("If-Modified-Since", httpDate(w.Epoch.Add(-secs(5000))))
		}
		t0 := time.Now()
		o := w.Do(req)
		took := time.Since(t0)
		world.Quiesce()
		if o.Panic != nil || o.Err != nil || o.HdrTok != o1.HdrTok || o.CacheStatus != "STALE" {
			x.Failf("stale response not served under stale-while-revalidate ("+mode+")", "request %d: %s", i+1, o)
			return
		}
		if took != 0 {
			x.Failf("foreground response waited for the origin ("+mode+")", "stale hit %d of %d took %v of virtual time while the origin hangs", i+1, n, took)
			return
		}
	}
	world.Advance(30 * time.Second)
	x.Nontrivial(mode + "/" + validators)
	x.State(mode, validators, fmt.Sprint(len(conds)))
	if len(conds) != n {
		x.Failf(fmt.Sprintf("%d background revalidation requests for %d stale responses served", len(conds), n), "%s", mode)
		return
	}
	want := fmt.Sprintf("inm=%q ims=%q", map[bool]string{true: `"v1"`}[validators != "lm"], map[bool]string{true: lm}[validators != "etag"])
	if mode == "client sends preconditions of its own" {
		// a stored validator replaces the client's precondition of the same kind; the other kind may stay the client's
		for _, c := range conds {
			okINM := validators == "lm" || strings.Contains(c, `inm="\"v1\""`)
			okIMS := validators == "etag" || strings.Contains(c, fmt.Sprintf("ims=%q", lm))
			if !okINM || !okIMS {
				x.Failf("background revalidation not conditional on the stored validators ("+validators+", client preconditions)", "sent %s", c)
				return
			}
		}
	} else if conds[0] != want {
		x.Failf("background revalidation not conditional on the stored validators ("+validators+")", "sent %s, want %s", conds[0], want)
	}
}
