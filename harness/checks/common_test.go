package checks

import (
	"fmt"
	"github.com/bartventer/httpcache/store/driver"
	"net/http"
	"strings"
	"time"

	"verifharness/mc"
	"verifharness/world"
)

const U = "http://example.com/r"

type RS = world.RespSpec

var H = world.H

// answer makes the origin answer every call with spec (after its Delay).
func answer(w *world.W, spec RS) {
	w.Origin.Handler = func(o *world.Origin, c *world.Call) (*http.Response, error) {
		if spec.Delay > 0 {
			if err := world.Sleep(c.Req, spec.Delay); err != nil {
				return nil, err
			}
		}
		sp := spec
		sp.Delay = 0 // already waited for (Respond would wait again)
		return o.Respond(c, sp), nil
	}
}

// answerFn installs a handler.
func answerFn(w *world.W, f func(o *world.Origin, c *world.Call) (*http.Response, error)) {
	w.Origin.Handler = f
}

var errOrigin = fmt.Errorf("verif: origin transport error")

func answerErr(w *world.W) {
	w.Origin.Handler = func(o *world.Origin, c *world.Call) (*http.Response, error) { return nil, errOrigin }
}

// get performs a GET with header pairs.
func get(w *world.W, url string, hdr ...string) *world.Obs {
	return w.Do(world.Req("GET", url, hdr...))
}

func secs(n int64) time.Duration { return time.Duration(n) * time.Second }

// logObs adds the exchange to the narrative.
func logObs(x *mc.X, what string, o *world.Obs) {
	x.Logf("%s -> %s", what, o.String())
	for _, c := range o.Calls {
		x.Logf("    origin: %s", c.String())
	}
	x.Transitions(1 + len(o.Ops) + len(o.Calls))
}

func cc(parts ...string) string {
	var p []string
	for _, s := range parts {
		if s != "" {
			p = append(p, s)
		}
	}
	return strings.Join(p, ", ")
}

// hdrIf appends name,value if value != "".
func hdrIf(h [][2]string, name, value string) [][2]string {
	if value == "" {
		return h
	}
	return append(h, [2]string{name, value})
}

func httpDate(t time.Time) string { return t.UTC().Format(http.TimeFormat) }

// obsClass is a compact observation class used for state hashing.
func obsClass(o *world.Obs) string {
	if o.Panic != nil {
		return "panic"
	}
	if o.Err != nil {
		return "err"
	}
	return fmt.Sprintf("%d/%s/calls%d", o.Status, o.CacheStatus, len(o.Calls))
}

func errNotExist() error { return driver.ErrNotExist }

// primeUnrelated performs one exchange for another resource whose response nominates a number of field names as
// hop-by-hop for itself (Connection) and carries spellings a later response does not. Nothing of it may carry over
// to other responses: whatever an implementation derives from one message belongs to that message.
func primeUnrelated(x *mc.X, w *world.W) {
	answer(w, RS{Status: 200, H: H("Cache-Control", "max-age=100", "Connection", "X-M, X-New, Age, Set-Cookie, X-Merged, Link, Cache-Control, Expires", "X-M", "primer", "Vary", "X-Primer")})
	o := get(w, "http://example.com/unrelated-primer")
	logObs(x, "GET of an unrelated resource (its response nominates X-M, X-New, Age, Set-Cookie, X-Merged, Link, Cache-Control, Expires in Connection)", o)
}
