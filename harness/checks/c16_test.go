package checks

import (
	"bytes"
	"fmt"
	"io"
	"net/http"
	"os"
	"sort"
	"strings"
	"sync"
	"sync/atomic"
	"testing"
	"time"

	"verifharness/mc"
	"verifharness/sched"
	"verifharness/world"

	shimsync "github.com/bartventer/httpcache/zzverif/shimsync"
)

// C16 — concurrent use of one transport is race-free; responses are caller-owned.
func init() { register(&Check{ID: "C16", Run: runC16, ShardDepth: 2}) }

const c16U2 = "http://example.com/other"

type c16Req struct {
	name   string
	method string
	url    string
	hdr    []string
}

var c16Reqs = []c16Req{
	{"GET u A=1", "GET", U, []string{"X-A", "1"}},
	{"GET u A=2", "GET", U, []string{"X-A", "2"}},
	{"GET u'", "GET", c16U2, []string{"X-A", "1"}},
	{"POST u", "POST", U, nil},
	{"GET u A=1 no-cache", "GET", U, []string{"X-A", "1", "Cache-Control", "no-cache"}},
	{"GET absent only-if-cached", "GET", "http://example.com/absent", []string{"Cache-Control", "only-if-cached"}},
	// (from here on: used in the listed programs only, not in the all-pairs product)
	{"GET u A=['',1] (an empty field line first)", "GET", U, []string{"X-A", "", "X-A", "1", "Accept-Encoding", "", "Accept-Encoding", "gzip"}},
	{"GET root (URL without a path) A=1", "GET", "http://example.com?x=1", []string{"X-A", "1"}},
}

const c16PairReqs = 6

var c16States = []string{"empty", "fresh", "stale+swr", "stale+must-revalidate", "two-variants", "stale+swr bodiless", "stale, Last-Modified only"}

// c16Programs: all unordered pairs (with repetition) and a fixed set of triples.
func c16Programs() [][]int {
	var ps [][]int
	for i := 0; i < c16PairReqs; i++ {
		for j := i; j < c16PairReqs; j++ {
			ps = append(ps, []int{i, j})
		}
	}
	ps = append(ps, []int{5, 5, 0}, []int{0, 0, 0}, []int{0, 0, 3}, []int{0, 1, 4}, []int{0, 4, 4}, []int{0, 3, 3}, []int{0, 1, 3}, []int{0, 2, 4}, []int{0, 0, 1}, []int{6}, []int{6, 0}, []int{7})
	return ps
}

// c16Prologue fills the store (no scheduler, no hooks). asOf back-dates the stored responses (race pass).
func c16Prologue(w *world.W, state string, backdate time.Duration) {
	date := func() string { return httpDate(time.Now().Add(-backdate)) }
	mk := func(ccv string) RS {
		return RS{Status: 200, H: H("Cache-Control", ccv, "Vary", "X-A", "ETag", `"v1"`, "Date", date())}
	}
	switch state {
	case "empty":
	case "fresh":
		answer(w, mk(`max-age="100000", no-cache="X-Nothing"`)) // quoted-string arguments: parsed on every lookup, by every caller
		w.Do(world.Req("GET", U, "X-A", "1"))
	case "stale+swr":
		answer(w, mk(`max-age="5", stale-while-revalidate="100000", stale-if-error=100000`))
		w.Do(world.Req("GET", U, "X-A", "1"))
	case "stale+swr bodiless":
		r := mk("max-age=5, stale-while-revalidate=100000")
		r.Status, r.Body = 301, []byte{}
		r.H = append(r.H, [2]string{"Location", c16U2})
		answer(w, r)
		w.Do(world.Req("GET", U, "X-A", "1"))
	case "stale+must-revalidate":
		answer(w, mk("max-age=5, must-revalidate"))
		w.Do(world.Req("GET", U, "X-A", "1"))
	case "stale, Last-Modified only": // validated in the foreground with If-Modified-Since alone
		answer(w, RS{Status: 200, H: H("Cache-Control", "max-age=5, must-revalidate", "Vary", "X-A", "Last-Modified", httpDate(time.Now().Add(-backdate-time.Hour)), "Date", date())})
		w.Do(world.Req("GET", U, "X-A", "1"))
	case "two-variants":
		answer(w, mk("max-age=5, stale-while-revalidate=100000"))
		w.Do(world.Req("GET", U, "X-A", "1"))
		answer(w, mk("max-age=100000"))
		w.Do(world.Req("GET", U, "X-A", "2"))
	}
}

type c16Result struct {
	thread   int
	req      c16Req
	resp     *http.Response
	err      error
	panicked any
	snap     http.Header
	body     []byte
	bodyErr  error
	retAt    int // number of origin calls started when the call returned
	reqFP    string
	reqFP2   string
	problems []string
}

func hdrFP(h http.Header) string {
	ks := make([]string, 0, len(h))
	for k := range h {
		ks = append(ks, k)
	}
	sort.Strings(ks)
	var sb strings.Builder
	for _, k := range ks {
		sb.WriteString(k + ": " + strings.Join(h[k], "\x00") + "\n")
	}
	return sb.String()
}

func reqFP(r *http.Request) string {
	return r.Method + " " + r.URL.String() + "\n" + hdrFP(r.Header)
}

// c16Client performs one request and the caller-side steps; pt is a scheduling point (nil in the race pass).
func c16Client(w *world.W, ti int, rq c16Req, pt func(string), res *c16Result) {
	if pt == nil {
		pt = func(string) {}
	}
	req := world.Req(rq.method, rq.url, rq.hdr...)
	res.thread, res.req, res.reqFP = ti, rq, reqFP(req)
	func() {
		defer func() {
			if r := recover(); r != nil {
				res.panicked = r
			}
		}()
		res.resp, res.err = w.RT.RoundTrip(req)
	}()
	res.retAt = w.Origin.NCalls()
	res.reqFP2 = reqFP(req)
	if res.resp == nil {
		return
	}
	pt("caller: snapshot header")
	res.snap = res.resp.Header.Clone()
	if hdrFP(res.resp.Header) != hdrFP(res.snap) {
		res.problems = append(res.problems, "header changed between return and first use")
	}
	pt("caller: write own mark into header")
	mark := fmt.Sprintf("CALLER-MARK-T%d", ti+1)
	res.resp.Header.Set("X-Caller", mark)
	res.resp.Header.Add("Cache-Control", mark)
	res.body, res.bodyErr = io.ReadAll(res.resp.Body)
	_ = res.resp.Body.Close()
	pt("caller: look at header last time")
	h := res.resp.Header.Clone()
	h.Del("X-Caller")
	cc := h.Values("Cache-Control")
	if len(cc) > 0 {
		h["Cache-Control"] = cc[:len(cc)-1]
		if len(cc) == 1 {
			h.Del("Cache-Control")
		}
	}
	if hdrFP(h) != hdrFP(res.snap) {
		res.problems = append(res.problems, "header of a returned response was modified by someone else: "+hdrDiff(res.snap, h))
	}
}

// c16RaceFailAll: in the free-running pass, every validation of this round fails (the stale-if-error path runs next to the caller).
var c16RaceFailAll atomic.Bool

func c16OriginHandler(x *mc.X, state string, pt func(string)) world.Handler {
	return func(o *world.Origin, c *world.Call) (*http.Response, error) {
		if pt != nil {
			pt("origin: " + c.Method + " " + c.URL)
		}
		if c.Method != "GET" {
			return o.Respond(c, RS{Status: 200, H: H("Location", c16U2)}), nil
		}
		cond := c.Header.Get("If-None-Match") != "" || c.Header.Get("If-Modified-Since") != ""
		answer304 := false
		if cond {
			if x != nil {
				answer304 = x.Choose("origin-answer", 2) == 1
				x.Trace[len(x.Trace)-1].Desc = map[bool]string{false: "200 new", true: "304 + new field"}[answer304]
			} else {
				answer304 = c.Seq%3 == 0
				if c.Seq%3 == 1 || c16RaceFailAll.Load() { // free-running pass: some validations fail (the stale-if-error path runs next to the caller)
					return o.Respond(c, RS{Status: 503}), nil
				}
			}
		}
		if answer304 {
			return o.Respond(c, RS{Status: 304, NoTok: true, H: H("X-N", fmt.Sprintf("n%d", c.Seq), "Vary", "X-A", "ETag", `"v1"`, "Cache-Control", "max-age=100000")}), nil
		}
		return o.Respond(c, RS{Status: 200, H: H("Cache-Control", "max-age=100000", "Vary", "X-A", "ETag", `"v1"`)}), nil
	}
}

func runC16(x *mc.X) {
	progs := c16Programs()
	pi := x.Choose("program", len(progs))
	prog := progs[pi]
	var names []string
	for _, r := range prog {
		names = append(names, c16Reqs[r].name)
	}
	x.Trace[len(x.Trace)-1].Desc = strings.Join(names, " || ")
	state := mc.Pick(x, "initial-store", c16States)
	bound := 2 // pairs
	if len(prog) == 3 {
		bound = 1
	}
	if x.Tier() == "thorough" {
		bound++
	}
	w := world.New(world.Opt{})
	defer w.Close()
	c16Prologue(w, state, 0)
	world.Advance(secs(10))
	nPrologueToks := len(w.Origin.Toks)

	s := sched.New(x, bound)
	w.Conn.Hook = func(kind, key string) { s.Point("store: " + kind + " " + short(key)) }
	shimsync.Hook = func(op string) { s.Point(op) }
	defer func() { shimsync.Hook = nil }()
	w.Origin.Handler = c16OriginHandler(x, state, s.Point)
	results := make([]*c16Result, len(prog))
	for ti, ri := range prog {
		ti, ri := ti, ri
		results[ti] = &c16Result{}
		s.Go(fmt.Sprintf("T%d", ti+1), func() { c16Client(w, ti, c16Reqs[ri], s.Point, results[ti]) })
	}
	s.Run()
	w.Conn.Hook = nil
	shimsync.Hook = nil
	x.Transitions(s.Steps())
	for _, l := range s.Trace {
		x.Logf("%s", l)
	}
	cls := fmt.Sprintf("%s/%s", strings.Join(names, "||"), state)
	x.Nontrivial(cls)
	if s.Deadlock || s.Livelock {
		x.Failf("deadlock or livelock", "program %v state %s: deadlock=%v livelock=%v", names, state, s.Deadlock, s.Livelock)
		return
	}
	var outcome []string
	for _, r := range results {
		who := fmt.Sprintf("T%d (%s)", r.thread+1, r.req.name)
		switch {
		case r.panicked != nil:
			x.Failf("panic in RoundTrip under concurrency", "%s: %v", who, r.panicked)
			return
		case r.resp == nil && r.err == nil:
			x.Failf("call returned neither response nor error", "%s", who)
			return
		}
		if r.reqFP != r.reqFP2 {
			x.Failf("caller's request modified", "%s: before %q after %q", who, r.reqFP, r.reqFP2)
		}
		if r.err != nil {
			outcome = append(outcome, "err")
			continue
		}
		for _, p := range r.problems {
			x.Failf("returned response modified after return: "+r.req.name+" / "+state, "%s: %s", who, p)
		}
		// quiescence: once more
		h := r.resp.Header.Clone()
		h.Del("X-Caller")
		if cc := h.Values("Cache-Control"); len(cc) > 0 {
			h["Cache-Control"] = cc[:len(cc)-1]
			if len(cc) == 1 {
				h.Del("Cache-Control")
			}
		}
		if hdrFP(h) != hdrFP(r.snap) {
			x.Failf("returned response modified after return (seen at quiescence): "+r.req.name+" / "+state, "%s: %s", who, hdrDiff(r.snap, h))
		}
		tokH := r.snap.Get("X-Tok")
		tokB := ""
		if i := bytes.IndexByte(r.body, '|'); i > 0 {
			tokB = string(r.body[:i])
		}
		outcome = append(outcome, fmt.Sprintf("%d/%s/%s", r.resp.StatusCode, r.snap.Get("X-Httpcache-Status"), tokH))
		if len(r.body) == 0 && r.bodyErr == nil && tokH != "" && w.Origin.Toks[tokH] != nil && len(w.Origin.Toks[tokH].Body) == 0 {
			tokB = tokH // a bodiless representation: the header token is all there is
		}
		if tokH == "" && r.resp.StatusCode == http.StatusGatewayTimeout && len(r.body) == 0 {
			if r.snap.Get("X-Caller") != "" || strings.Contains(strings.Join(r.snap.Values("Cache-Control"), ","), "CALLER-MARK") {
				x.Failf("another caller's mark leaked into a response", "%s: the synthesised 504 carries %v", who, r.snap)
			}
			continue // a synthesised 504 carries no token
		}
		if r.bodyErr != nil || tokH != tokB {
			x.Failf("response not self-consistent (header token vs body token)", "%s: X-Tok=%q body=%q err=%v", who, tokH, clipB(r.body), r.bodyErr)
			continue
		}
		tk := w.Origin.Toks[tokH]
		if tk == nil {
			x.Failf("response carries an unknown token", "%s: %q", who, tokH)
			continue
		}
		if !bytes.Equal(r.body, tk.Body) {
			x.Failf("body differs from what the origin minted", "%s: %q vs %q", who, clipB(r.body), clipB(tk.Body))
		}
		if tk.URL != r.req.url {
			x.Failf("response for another resource", "%s received a response minted for %s", who, tk.URL)
		}
		if r.req.method == "GET" && strings.Contains(strings.Join(tk.Header.Values("Vary"), ","), "X-A") {
			var wants []string
			for i := 0; i+1 < len(r.req.hdr); i += 2 {
				if r.req.hdr[i] == "X-A" {
					wants = append(wants, r.req.hdr[i+1])
				}
			}
			want := strings.Join(wants, "\x00") // all field lines, in order
			if got := strings.Join(tk.ReqHdr.Values("X-A"), "\x00"); got != want {
				x.Failf("response for another variant", "%s (X-A=%s) received a response selected by X-A=%s", who, want, got)
			}
		}
		if r.snap.Get("X-Caller") != "" || strings.Contains(strings.Join(r.snap.Values("Cache-Control"), ","), "CALLER-MARK") {
			x.Failf("another caller's mark leaked into a response", "%s: %v", who, r.snap)
		}
	}
	// marks written by callers never reach the store
	for _, k := range w.Conn.Keys() {
		if v, _ := w.Conn.Peek(k); bytes.Contains(v, []byte("CALLER-MARK")) {
			x.Failf("a caller's modification of its response reached the store", "value under %q contains a caller mark", short(k))
		}
	}
	_ = nPrologueToks
	sort.Strings(outcome)
	x.State(cls, strings.Join(outcome, ","), strings.Join(w.Conn.Keys(), ","))
	x.Note(strings.Join(outcome, ","))
	x.Sample(map[string]any{"program": names, "initial_store": state, "schedule_steps": s.Steps(), "outcome": outcome})
}

// TestC16Race is the free-running pass: the same thread programs and initial stores, real goroutines, no
// scheduler, outside a synctest bubble, meant to be run from the -race build (staleness by back-dated Date).
func TestC16Race(t *testing.T) {
	if os.Getenv("VERIF_C16_RACE") == "" {
		t.Skip("VERIF_C16_RACE not set")
	}
	rounds := 30
	n := 0
	for _, prog := range c16Programs() {
		for _, state := range c16States {
			for round := 0; round < rounds; round++ {
				opt := world.Opt{}
				if round%2 == 1 {
					opt.DSN = "memcache://" // the built-in memory backend instead of the recording one
				}
				if round%8 >= 6 {
					opt.Logger = "text" // a logger enabled at debug level reads what it is handed while other goroutines work
				}
				w := world.New(opt)
				w.NoWait = true
				c16RaceFailAll.Store(round%4 >= 2)
				c16Prologue(w, state, 20*time.Second)
				w.Origin.Handler = c16OriginHandler(nil, state, nil)
				var wg sync.WaitGroup
				results := make([]*c16Result, len(prog))
				startGate := make(chan struct{})
				for ti, ri := range prog {
					ti, ri := ti, ri
					results[ti] = &c16Result{}
					wg.Add(1)
					go func() {
						defer wg.Done()
						<-startGate
						c16Client(w, ti, c16Reqs[ri], nil, results[ti])
					}()
				}
				close(startGate)
				wg.Wait()
				// give background revalidations a moment, then look at the responses once more
				time.Sleep(2 * time.Millisecond)
				for _, r := range results {
					if r.resp != nil {
						_ = hdrFP(r.resp.Header)
					}
					if len(r.problems) > 0 {
						t.Errorf("C16RACE-PROBLEM program=%v state=%s: %v", prog, state, r.problems)
					}
				}
				w.Close()
				n++
			}
		}
	}
	fmt.Printf("C16RACE-DONE runs=%d\n", n)
}
