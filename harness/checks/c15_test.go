package checks

import (
	"bytes"
	"encoding/json"
	"errors"
	"fmt"
	"os"
	"os/exec"
	"path/filepath"
	"runtime"
	"strings"
	"syscall"
	"testing"
	"testing/synctest"
	"time"

	"github.com/anishathalye/porcupine"

	"verifharness/mc"
	"verifharness/sched"
	"verifharness/world"

	"github.com/bartventer/httpcache/store/driver"
	"github.com/bartventer/httpcache/store/fscache"
	shimos "github.com/bartventer/httpcache/zzverif/shimos"
	shimsync "github.com/bartventer/httpcache/zzverif/shimsync"
)

// C15 — store writes are atomic under concurrency, failed writes and crashes.
func init() {
	register(&Check{ID: "C15", Run: runC15, ShardDepth: 4})
	// A thread that "dies" at a cut point simply never runs again (shimos.DieFunc blocks forever). It must NOT
	// be ended with runtime.Goexit: that would run its deferred calls (clean-up code), which a killed process
	// never executes. The caller's Set returns through the backend's own operation timeout (virtual time).
	_ = runtime.NumGoroutine
}

var (
	c15V0 = bytes.Repeat([]byte("A"), 40)
	c15V1 = bytes.Repeat([]byte("B"), 64)
	c15V2 = bytes.Repeat([]byte("C"), 24)
)

const c15K = "http://example.com/r#0"

var c15LongKey = "http://example.com/long?" + strings.Repeat("abcdefghij", 28) // 303 bytes

type c15Op struct {
	kind string // set | get | del
	key  string
	val  []byte
}

type c15Prog struct {
	name    string
	threads [][]c15Op
}

func c15Progs() []c15Prog {
	sib1 := "http://example.com/" + strings.Repeat("s", 300) + "1"
	sib2 := "http://example.com/" + strings.Repeat("s", 300) + "2"
	return []c15Prog{
		{"Set||Get", [][]c15Op{{{"set", c15K, c15V1}}, {{"get", c15K, nil}}}},
		{"Set||Get;Get", [][]c15Op{{{"set", c15K, c15V1}}, {{"get", c15K, nil}, {"get", c15K, nil}}}},
		{"Set||Set||Get", [][]c15Op{{{"set", c15K, c15V1}}, {{"set", c15K, c15V2}}, {{"get", c15K, nil}}}},
		{"Set||Delete||Get", [][]c15Op{{{"set", c15K, c15V1}}, {{"del", c15K, nil}}, {{"get", c15K, nil}}}},
		{"Set||Get||Get", [][]c15Op{{{"set", c15K, c15V1}}, {{"get", c15K, nil}}, {{"get", c15K, nil}}}},
		{"Set;Get||Delete", [][]c15Op{{{"set", c15K, c15V1}, {"get", c15K, nil}}, {{"del", c15K, nil}}}},
		{"Set||Set||Set;Get", [][]c15Op{{{"set", c15K, c15V1}}, {{"set", c15K, c15V2}}, {{"set", c15K, c15V0}, {"get", c15K, nil}}}},
		{"siblings Set||Set||Get", [][]c15Op{{{"set", sib1, c15V1}}, {{"set", sib2, c15V2}}, {{"get", sib1, nil}}}},
	}
}

func runC15(x *mc.X) {
	mode := mc.Pick(x, "mode", []string{"interleave", "cut", "transport-cut"})
	if mode == "cut" {
		runC15Cut(x)
		return
	}
	if mode == "transport-cut" {
		runC15TransportCut(x)
		return
	}
	progs := c15Progs()
	pi := x.Choose("program", len(progs))
	prog := progs[pi]
	x.Trace[len(x.Trace)-1].Desc = prog.name
	prev := x.Choose("previous-value", 2) == 1
	enc := x.Choose("encrypted", 2) == 1
	bound := 3
	if x.Tier() == "thorough" {
		bound = 5
	}

	dir, err := os.MkdirTemp(os.Getenv("VERIF_SCRATCH"), "c15-")
	if err != nil {
		panic(err)
	}
	defer os.RemoveAll(dir)
	opts := []fscache.Option{fscache.WithBaseDir(dir)}
	if enc {
		opts = append(opts, fscache.WithEncryption(c14EncKey))
	}
	shimos.Hook = nil
	conn, err := fscache.Open("app", opts...)
	if err != nil {
		panic(err)
	}
	keys := map[string]bool{}
	for _, th := range prog.threads {
		for _, op := range th {
			keys[op.key] = true
		}
	}
	if prev {
		for k := range keys {
			if err := conn.Set(k, c15V0); err != nil {
				panic(err)
			}
		}
	}
	s := sched.New(x, bound)
	shimos.Hook = func(ev *shimos.Event) shimos.Action {
		s.Point(ev.Op + " " + filepath.Base(ev.Path))
		return shimos.Action{}
	}
	shimsync.Hook = func(op string) { s.Point(op) }
	defer func() { shimos.Hook = nil; shimsync.Hook = nil }()
	type rec struct {
		thread int
		op     c15Op
		call   int64
		ret    int64
		out    []byte
		err    error
	}
	var recs []*rec
	for ti, th := range prog.threads {
		ti, th := ti, th
		s.Go(fmt.Sprintf("T%d", ti+1), func() {
			for _, op := range th {
				r := &rec{thread: ti, op: op, call: s.Clock()}
				switch op.kind {
				case "set":
					r.err = conn.Set(op.key, append([]byte(nil), op.val...))
				case "get":
					r.out, r.err = conn.Get(op.key)
				case "del":
					r.err = conn.Delete(op.key)
				}
				r.ret = s.Clock()
				recs = append(recs, r)
			}
		})
	}
	s.Run()
	shimos.Hook = nil
	shimsync.Hook = nil
	x.Transitions(s.Steps())
	for _, l := range s.Trace {
		x.Logf("%s", l)
	}
	cls := fmt.Sprintf("%s/prev=%v/enc=%v", prog.name, prev, enc)
	x.Nontrivial(cls)
	if s.Deadlock || s.Livelock {
		x.Failf("deadlock or livelock: "+prog.name, "deadlock=%v livelock=%v after %d steps", s.Deadlock, s.Livelock, s.Steps())
		return
	}
	// every Get returns, in full, a value that was passed to Set for that key, or not-exist
	var outcome []string
	for _, r := range recs {
		switch r.op.kind {
		case "get":
			switch {
			case r.err != nil && errors.Is(r.err, driver.ErrNotExist):
				outcome = append(outcome, "get:absent")
			case r.err != nil:
				outcome = append(outcome, "get:error")
				x.Failf("Get failed with an error other than not-exist: "+prog.name, "%v", r.err)
			default:
				name := map[string]string{string(c15V0): "v0", string(c15V1): "v1", string(c15V2): "v2"}[string(r.out)]
				if name == "" {
					x.Failf(fmt.Sprintf("Get returned a value that was never written: %s (len %d)", prog.name, len(r.out)), "Get(%s) returned %d bytes %q — not v0 (40xA), v1 (64xB) or v2 (24xC)", keyName(r.op.key), len(r.out), clipB(r.out))
					name = "garbage"
				}
				outcome = append(outcome, "get:"+name)
			}
		case "set":
			// a Set that reports failure is not judged by itself: in the linearizability check it may or may not have taken effect
			outcome = append(outcome, fmt.Sprintf("set:%v", r.err == nil))
		case "del":
			outcome = append(outcome, fmt.Sprintf("del:%v", r.err == nil))
			if r.err != nil && !errors.Is(r.err, driver.ErrNotExist) {
				x.Failf("Delete failed with an error other than not-exist: "+prog.name, "%v", r.err)
			}
		}
	}
	x.State(cls, strings.Join(outcome, ","))
	x.Note(strings.Join(outcome, ","))
	if x.Failed() {
		return
	}
	// linearizability per key against a register with delete
	for k := range keys {
		var ops []porcupine.Operation
		for i, r := range recs {
			if r.op.key != k {
				continue
			}
			in := c15In{kind: r.op.kind, val: string(r.op.val), failed: r.op.kind == "set" && r.err != nil}
			out := c15Out{val: string(r.out), absent: r.err != nil}
			ops = append(ops, porcupine.Operation{ClientId: r.thread, Input: in, Call: r.call*2 + 0, Output: out, Return: r.ret*2 + 1 + int64(i)*0})
		}
		init := ""
		if prev {
			init = string(c15V0)
		}
		c15FailedSetsApply = false
		ok := porcupine.CheckOperations(c15Model(init), ops)
		if !ok {
			c15FailedSetsApply = true
			ok = porcupine.CheckOperations(c15Model(init), ops)
			c15FailedSetsApply = false
		}
		if !ok {
			x.Failf("history not linearizable: "+prog.name, "completed operations on %s admit no linearization: %v", keyName(k), outcome)
		}
	}
	x.Sample(map[string]any{"program": prog.name, "previous_value": prev, "encrypted": enc, "schedule_steps": s.Steps(), "outcome": outcome})
}

type c15In struct {
	kind   string
	val    string
	failed bool // a Set that returned an error: it may have taken effect or not
}

// c15FailedSetsApply selects the reading of failed Sets for the current model pass.
var c15FailedSetsApply bool

type c15Out struct {
	val    string
	absent bool
}

func c15Model(init string) porcupine.Model {
	return porcupine.Model{
		Init: func() interface{} { return init },
		Step: func(state, input, output interface{}) (bool, interface{}) {
			st, in, out := state.(string), input.(c15In), output.(c15Out)
			switch in.kind {
			case "set":
				if in.failed {
					// porcupine explores one successor per Step; a failed Set is modelled as not having taken
					// effect unless a later Get proves otherwise — both readings are tried via two model passes
					if c15FailedSetsApply {
						return true, in.val
					}
					return true, st
				}
				return true, in.val
			case "get":
				if st == "" {
					return out.absent, st
				}
				return !out.absent && out.val == st, st
			case "del":
				if st == "" {
					return out.absent, st
				}
				return !out.absent, ""
			}
			return false, st
		},
		Equal: func(a, b interface{}) bool { return a.(string) == b.(string) },
	}
}

// runC15Cut: a lone Set is cut short at every file-system operation (and, for writes, at every byte).
func runC15Cut(x *mc.X) {
	vlen := mc.Pick(x, "value-len", []int{1, 40, 4097})
	prevKind := mc.Pick(x, "previous-value", []string{"none", "50 bytes", "same length as the new value"})
	prev := prevKind != "none"
	enc := x.Choose("encrypted", 2) == 1
	how := mc.Pick(x, "cut", []string{"die", "ENOSPC", "EIO", "operation timeout"})
	// a key short enough for a single file name, and one that the backend has to spread over nested directories
	key := c15K
	if mc.Pick(x, "key", []string{"short", "300 bytes"}) == "300 bytes" {
		key = c15LongKey
	}
	val := bytes.Repeat([]byte("N"), vlen)
	old := bytes.Repeat([]byte("o"), 50)
	if prevKind == "same length as the new value" {
		old = bytes.Repeat([]byte("o"), vlen)
	}

	dir, err := os.MkdirTemp(os.Getenv("VERIF_SCRATCH"), "c15-")
	if err != nil {
		panic(err)
	}
	defer os.RemoveAll(dir)
	dsn := "fscache://" + dir + "?appname=app"
	opts := []fscache.Option{fscache.WithBaseDir(dir)}
	if enc {
		opts = append(opts, fscache.WithEncryption(c14EncKey))
		dsn += "&encrypt=on&encrypt_key=" + c14EncKey
	}
	shimos.Hook = nil
	conn, err := fscache.Open("app", opts...)
	if err != nil {
		panic(err)
	}
	if prev {
		if err := conn.Set(key, old); err != nil {
			panic(err)
		}
	}
	// first a dry run to learn the operations of one Set (whatever the current source does)
	var evs []shimos.Event
	shimos.Hook = func(ev *shimos.Event) shimos.Action { evs = append(evs, *ev); return shimos.Action{} }
	dry, _ := os.MkdirTemp(os.Getenv("VERIF_SCRATCH"), "c15dry-")
	dconn, _ := fscache.Open("app", append([]fscache.Option{fscache.WithBaseDir(dry)}, opts[1:]...)...)
	evs = nil
	if prev {
		_ = dconn.Set(key, old)
		evs = nil
	}
	_ = dconn.Set(key, val)
	shimos.Hook = nil
	os.RemoveAll(dry)
	ops := append([]shimos.Event(nil), evs...)
	if len(ops) == 0 {
		x.Failf("harness: no file-system operation observed during Set", "the os shim saw nothing")
		return
	}
	if how == "operation timeout" {
		// the backend's own per-operation timeout (option / DSN parameter) expires while the Set is stalled at one of
		// its file-system operations (a slow disk); the abandoned operation then runs on. Time is virtual.
		oi := x.Choose("stalled-at-operation", len(ops))
		x.Trace[len(x.Trace)-1].Desc = ops[oi].Op
		tconn, err := fscache.Open("app", append(append([]fscache.Option{}, opts...), fscache.WithTimeout(500*time.Millisecond))...)
		if err != nil {
			x.Failf("open with a short timeout fails", "%v", err)
			return
		}
		n := 0
		shimos.Hook = func(ev *shimos.Event) shimos.Action {
			i := n
			n++
			if i == oi {
				time.Sleep(time.Second)
			}
			return shimos.Action{}
		}
		setErr := tconn.Set(key, val)
		x.Logf("Set with a 500 ms operation timeout, stalled for 1 s at operation %d (%s) -> %v", oi, ops[oi].Op, setErr)
		check := func(when string) bool {
			got, err := conn.Get(key)
			switch {
			case err != nil && (errors.Is(err, driver.ErrNotExist) || enc):
			case err != nil:
				x.Failf("Get fails after a timed-out Set", "%s: %v", when, err)
				return false
			case bytes.Equal(got, val), prev && bytes.Equal(got, old):
			default:
				x.Failf(fmt.Sprintf("partial or mixed value after a timed-out Set (stalled at %s, value %d B, previous=%v)", ops[oi].Op, vlen, prev), "%s: Get returned %d bytes %q; Set(%d bytes) had returned %v", when, len(got), clipB(got), vlen, setErr)
				return false
			}
			return true
		}
		if check("right after Set returned") {
			time.Sleep(3 * time.Second) // the abandoned operation runs to its end
			synctest.Wait()
			check("after the abandoned operation finished")
		}
		shimos.Hook = nil
		x.Nontrivial(fmt.Sprintf("cut/timeout/%s/len=%d/prev=%v/enc=%v", ops[oi].Op, vlen, prev, enc))
		return
	}
	oi := x.Choose("at-operation", len(ops))
	x.Trace[len(x.Trace)-1].Desc = ops[oi].Op
	short := 0
	if (ops[oi].Op == "File.Write" || ops[oi].Op == "File.WriteAt") && ops[oi].N > 0 {
		// every byte count for short values; a grid plus both ends for the 4 KiB value (thorough: every byte)
		var ks []int
		if ops[oi].N <= 128 || x.Tier() == "thorough" {
			for k := 0; k <= ops[oi].N; k++ {
				ks = append(ks, k)
			}
		} else {
			for k := 0; k <= ops[oi].N; k += 97 {
				ks = append(ks, k)
			}
			ks = append(ks, 1, ops[oi].N-1, ops[oi].N)
		}
		short = mc.Pick(x, "bytes-written-before-the-cut", ks)
	}
	n := 0
	var inj error
	switch how {
	case "ENOSPC":
		inj = syscall.ENOSPC
	case "EIO":
		inj = syscall.EIO
	}
	var setErr error
	if how == "die" {
		// process death is REAL: a child process (this test binary) performs the Set over the same directory and
		// SIGKILLs itself at the cut point — no deferred call runs, no lock survives, descriptors are closed by
		// the kernel. Everything below inspects the directory from this (other) process.
		if msg := c15Child(c15ChildSpec{Mode: "set", Dir: dir, VLen: vlen, Enc: enc, At: oi, Short: short, Key: key}); msg != "" {
			x.Failf("harness: the child process did not die at the cut point", "%s", msg)
			return
		}
		n = oi + 1
		conn, err = fscache.Open("app", opts...) // a fresh instance; nothing is shared with the dead process
		if err != nil {
			x.Failf("open fails after a killed Set", "%v", err)
			return
		}
	} else {
		shimos.Hook = func(ev *shimos.Event) shimos.Action {
			i := n
			n++
			if i != oi {
				return shimos.Action{}
			}
			return shimos.Action{Err: inj, Short: short}
		}
		setErr = conn.Set(key, val)
		shimos.Hook = nil
	}
	x.Transitions(n)
	x.Logf("Set cut at operation %d (%s) after %d bytes, %s -> Set returned %v", oi, ops[oi].Op, short, how, setErr)

	allowed := func(got []byte, err error, what string) bool {
		switch {
		case err != nil && errors.Is(err, driver.ErrNotExist):
			return true
		case err != nil:
			if enc {
				return true // an undecryptable file is rejected, which is as good as absent (C17)
			}
			x.Failf("Get fails after a cut Set ("+how+" at "+ops[oi].Op+")", "%s: %v", what, err)
			return false
		case bytes.Equal(got, val), prev && bytes.Equal(got, old):
			return true
		}
		x.Failf(fmt.Sprintf("partial or mixed value after a cut Set (%s at %s, value %d B, previous=%v)", how, ops[oi].Op, vlen, prev),
			"%s returned %d bytes %q after a Set of %d bytes was cut at %s after %d bytes (%s); expected the old value, the complete new value, or absent", what, len(got), clipB(got), vlen, ops[oi].Op, short, how)
		return false
	}
	got, err := conn.Get(key)
	if !allowed(got, err, "Get on the same instance") {
		return
	}
	if how != "die" && setErr == nil && !(err == nil && bytes.Equal(got, val)) {
		x.Failf("Set reported success but the value is not there ("+how+" at "+ops[oi].Op+")", "Get returned %d bytes, err %v", len(got), err)
		return
	}
	re, err := fscache.Open("app", opts...)
	if err != nil {
		x.Failf("reopen fails after a cut Set", "%v", err)
		return
	}
	got2, err2 := re.Get(key)
	if !allowed(got2, err2, "Get after reopening the directory") {
		return
	}
	// life goes on after the interrupted write: a later, complete Set of a shorter value (same key, and a
	// sibling key in the same directory) must read back exactly
	short2 := []byte("s")
	for _, k := range []string{key, key + "-sibling"} {
		if err := re.Set(k, short2); err != nil {
			x.Failf("Set fails after an earlier Set was cut ("+how+" at "+ops[oi].Op+")", "%v", err)
			return
		}
		if got3, err3 := re.Get(k); err3 != nil || !bytes.Equal(got3, short2) {
			x.Failf(fmt.Sprintf("a complete Set after a cut Set does not read back (%s at %s, value %d B)", how, ops[oi].Op, vlen),
				"after a Set of %d bytes was cut at %s after %d bytes, Set(%s, 1 byte) followed by Get returned %d bytes %q, err %v", vlen, ops[oi].Op, short, keyName(k), len(got3), clipB(got3), err3)
			return
		}
	}
	cls := fmt.Sprintf("cut/%s/%s/len=%d/prev=%v/enc=%v", how, ops[oi].Op, vlen, prev, enc)
	x.Nontrivial(cls)
	x.State(cls, fmt.Sprint(short), fmt.Sprint(err2 == nil), fmt.Sprint(len(got2)))
	x.Sample(map[string]any{"operations_of_one_Set": opNames(ops), "cut_at": ops[oi].Op, "bytes_written": short, "how": how, "value_len": vlen, "previous_value": prev, "encrypted": enc, "get_after": fmt.Sprintf("%d bytes, err=%v", len(got2), err2)})
	_ = world.ErrInjected
	_ = dsn
}

func opNames(evs []shimos.Event) []string {
	var out []string
	for _, e := range evs {
		out = append(out, e.Op)
	}
	return out
}

// runC15TransportCut: the transport replaces a stored response while the backend's writes are cut at every
// file-system operation; afterwards a fresh transport over the same directory must serve a complete body.
func runC15TransportCut(x *mc.X) {
	enc := x.Choose("encrypted", 2) == 1
	how := mc.Pick(x, "cut", []string{"die", "ENOSPC"})
	dir, err := os.MkdirTemp(os.Getenv("VERIF_SCRATCH"), "c15t-")
	if err != nil {
		panic(err)
	}
	defer os.RemoveAll(dir)
	dsn := "fscache://" + dir + "?appname=app"
	if enc {
		dsn += "&encrypt=on&encrypt_key=" + c14EncKey
	}
	bodyOld, bodyNew := c15BodyOld, c15BodyNew
	run := func(hook func(ev *shimos.Event) shimos.Action) (ops []shimos.Event, w *world.W) {
		ops, w, o := c15TransportScenario(dsn, hook, false)
		logObs(x, "GET no-cache (origin: 200 new body), backend writes cut", o)
		return ops, w
	}
	// dry run in a scratch copy of the scenario to learn the operations
	dry, _ := os.MkdirTemp(os.Getenv("VERIF_SCRATCH"), "c15td-")
	saveDSN := dsn
	dsn = strings.Replace(dsn, dir, dry, 1)
	ops, _ := run(nil)
	os.RemoveAll(dry)
	dsn = saveDSN
	var writes []int
	for i, ev := range ops {
		if strings.HasPrefix(ev.Op, "File.Write") || strings.Contains(ev.Op, "Rename") || strings.Contains(ev.Op, "Create") || strings.Contains(ev.Op, "OpenFile") || ev.Op == "File.Sync" || ev.Op == "File.Close" || strings.Contains(ev.Op, "Mkdir") {
			writes = append(writes, i)
		}
	}
	if len(writes) == 0 {
		x.Failf("harness: no write operations observed", "%v", opNames(ops))
		return
	}
	oi := mc.Pick(x, "at-operation", writes)
	x.Trace[len(x.Trace)-1].Desc = ops[oi].Op
	short := 0
	if ops[oi].Op == "File.Write" {
		var ks []int
		for k := 0; k <= ops[oi].N; k += max(1, ops[oi].N/24) {
			ks = append(ks, k)
		}
		short = mc.Pick(x, "bytes-written-before-the-cut", ks)
	}
	n := 0
	var w *world.W
	if how == "die" {
		// the whole scenario runs in a real child process that SIGKILLs itself at the cut point
		if msg := c15Child(c15ChildSpec{Mode: "transport", DSN: dsn, At: oi, Short: short}); msg != "" {
			x.Failf("harness: the child process did not die at the cut point", "%s", msg)
			return
		}
		n = oi + 1
		w = world.New(world.Opt{DSN: dsn})
	} else {
		_, w = run(func(ev *shimos.Event) shimos.Action {
			i := n
			n++
			if i != oi {
				return shimos.Action{}
			}
			return shimos.Action{Err: syscall.ENOSPC, Short: short}
		})
	}
	x.Transitions(n)
	// a fresh transport over the same directory (as after a restart)
	w2 := world.NewWithOrigin(world.Opt{DSN: dsn}, w.Origin)
	answer(w2, RS{Status: 200, H: H("Cache-Control", "no-store"), Body: []byte("tok3|fresh-from-origin")})
	o := get(w2, U)
	logObs(x, "GET on a fresh transport over the same directory", o)
	cls := fmt.Sprintf("transport-cut/%s/%s/enc=%v", how, ops[oi].Op, enc)
	x.Nontrivial(cls)
	x.State(cls, fmt.Sprint(short), obsClass(o), o.Tok)
	x.Sample(map[string]any{"cut_at": ops[oi].Op, "how": how, "bytes_written": short, "encrypted": enc, "observed": o.String()})
	if o.Panic != nil || o.Err != nil {
		return // C10
	}
	if o.BodyErr != nil || !(bytes.Equal(o.Body, bodyOld) || bytes.Equal(o.Body, bodyNew) || bytes.Equal(o.Body, []byte("tok3|fresh-from-origin"))) {
		x.Failf(fmt.Sprintf("transport served a truncated or spliced body after a cut write (%s at %s)", how, ops[oi].Op),
			"body of %d bytes %q (read error %v) is neither the old stored body (%d B), the new one (%d B) nor the origin's", len(o.Body), clipB(o.Body), o.BodyErr, len(bodyOld), len(bodyNew))
	}
}

// ---- real process death: the cut is performed by a child process that SIGKILLs itself

var (
	c15BodyOld = []byte("tok1|" + strings.Repeat("old-", 100))
	c15BodyNew = []byte("tok2|" + strings.Repeat("NEW+", 300))
)

// c15TransportScenario: a response is stored through the transport, then replaced (request no-cache, origin
// answers 200 with another body) while hook sees every file-system operation of that second exchange.
func c15TransportScenario(dsn string, hook func(ev *shimos.Event) shimos.Action, noWait bool) (ops []shimos.Event, w *world.W, o *world.Obs) {
	shimos.Hook = nil
	w = world.New(world.Opt{DSN: dsn})
	w.NoWait = noWait
	answer(w, RS{Status: 200, H: H("Cache-Control", "max-age=1000"), Body: c15BodyOld})
	get(w, U)
	if !noWait {
		world.Advance(secs(5))
	}
	answer(w, RS{Status: 200, H: H("Cache-Control", "max-age=1000"), Body: c15BodyNew})
	shimos.Hook = func(ev *shimos.Event) shimos.Action {
		ops = append(ops, *ev)
		if hook != nil {
			return hook(ev)
		}
		return shimos.Action{}
	}
	o = get(w, U, "Cache-Control", "no-cache")
	shimos.Hook = nil
	return ops, w, o
}

type c15ChildSpec struct {
	Mode  string `json:"mode"` // set | transport
	Dir   string `json:"dir"`
	DSN   string `json:"dsn"`
	VLen  int    `json:"vlen"`
	Enc   bool   `json:"enc"`
	At    int    `json:"at"`    // index of the file-system operation at which the process dies
	Short int    `json:"short"` // bytes written by that operation before the death
	Key   string `json:"key,omitempty"`
}

// c15Child runs the spec in a child process and returns "" if the child was killed by SIGKILL as planned.
func c15Child(spec c15ChildSpec) string {
	b, _ := json.Marshal(spec)
	cmd := exec.Command(os.Args[0], "-test.run", "^TestC15Child$", "-test.count", "1")
	cmd.Env = append(os.Environ(), "VERIF_C15_CHILD="+string(b))
	out, err := cmd.CombinedOutput()
	if ee, ok := err.(*exec.ExitError); ok {
		if ws, ok := ee.Sys().(syscall.WaitStatus); ok && ws.Signaled() && ws.Signal() == syscall.SIGKILL {
			return ""
		}
	}
	return fmt.Sprintf("err=%v output=%s", err, clipStr(string(out), 600))
}

// TestC15Child is the body of the child process: it performs the operation and kills itself at the cut point.
func TestC15Child(t *testing.T) {
	raw := os.Getenv("VERIF_C15_CHILD")
	if raw == "" {
		t.Skip("not a child")
	}
	var spec c15ChildSpec
	if err := json.Unmarshal([]byte(raw), &spec); err != nil {
		t.Fatal(err)
	}
	shimos.DieFunc = func() { _ = syscall.Kill(os.Getpid(), syscall.SIGKILL); select {} }
	n := 0
	hook := func(ev *shimos.Event) shimos.Action {
		i := n
		n++
		if i != spec.At {
			return shimos.Action{}
		}
		return shimos.Action{Die: true, Short: spec.Short}
	}
	switch spec.Mode {
	case "set":
		opts := []fscache.Option{fscache.WithBaseDir(spec.Dir)}
		if spec.Enc {
			opts = append(opts, fscache.WithEncryption(c14EncKey))
		}
		conn, err := fscache.Open("app", opts...)
		if err != nil {
			t.Fatal(err)
		}
		shimos.Hook = hook
		k := spec.Key
		if k == "" {
			k = c15K
		}
		_ = conn.Set(k, bytes.Repeat([]byte("N"), spec.VLen))
	case "transport":
		c15TransportScenario(spec.DSN, hook, true)
	}
	t.Fatal("the child survived the cut point")
}
