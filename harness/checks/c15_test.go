package checks

import (
	"bytes"
	"errors"
	"fmt"
	"os"
	"os/exec"
	"path/filepath"
	"runtime"
	"sort"
	"strings"
	"syscall"
	"testing"

	"github.com/anishathalye/porcupine"

	"verifharness/mc"
	"verifharness/sched"
	"verifharness/world"

	"github.com/bartventer/httpcache/store/driver"
	"github.com/bartventer/httpcache/store/fscache"
	shimos "github.com/bartventer/httpcache/zzverif/shimos"
)

// C15 — store writes are atomic under concurrency, failed writes and crashes.
func init() {
	register(&Check{ID: "C15", Run: runC15, ShardDepth: 4})
	// A thread that "dies" at a cut point simply never runs again (shimos.DieFunc blocks forever). It must NOT
	// be ended with runtime.Goexit: that would run its deferred calls (clean-up code), which a killed process
	// never executes. The caller's Set returns through the backend's own operation timeout (virtual time).
	_ = runtime.NumGoroutine
}

var (
	c15V0 = bytes.Repeat([]byte("A"), 40)
	c15V1 = bytes.Repeat([]byte("B"), 64)
	c15V2 = bytes.Repeat([]byte("C"), 24)
)

const c15K = "http://example.com/r#0"

type c15Op struct {
	kind string // set | get | del
	key  string
	val  []byte
}

type c15Prog struct {
	name    string
	threads [][]c15Op
}

func c15Progs() []c15Prog {
	sib1 := "http://example.com/" + strings.Repeat("s", 300) + "1"
	sib2 := "http://example.com/" + strings.Repeat("s", 300) + "2"
	return []c15Prog{
		{"Set||Get", [][]c15Op{{{"set", c15K, c15V1}}, {{"get", c15K, nil}}}},
		{"Set||Get;Get", [][]c15Op{{{"set", c15K, c15V1}}, {{"get", c15K, nil}, {"get", c15K, nil}}}},
		{"Set||Set||Get", [][]c15Op{{{"set", c15K, c15V1}}, {{"set", c15K, c15V2}}, {{"get", c15K, nil}}}},
		{"Set||Delete||Get", [][]c15Op{{{"set", c15K, c15V1}}, {{"del", c15K, nil}}, {{"get", c15K, nil}}}},
		{"Set||Get||Get", [][]c15Op{{{"set", c15K, c15V1}}, {{"get", c15K, nil}}, {{"get", c15K, nil}}}},
		{"Set;Get||Delete", [][]c15Op{{{"set", c15K, c15V1}, {"get", c15K, nil}}, {{"del", c15K, nil}}}},
		{"siblings Set||Set||Get", [][]c15Op{{{"set", sib1, c15V1}}, {{"set", sib2, c15V2}}, {{"get", sib1, nil}}}},
	}
}

func runC15(x *mc.X) {
	mode := mc.Pick(x, "mode", []string{"interleave", "cut", "transport-cut", "cut-conformance"})
	if mode == "cut-conformance" {
		runC15Conformance(x)
		return
	}
	if mode == "cut" {
		runC15Cut(x)
		return
	}
	if mode == "transport-cut" {
		runC15TransportCut(x)
		return
	}
	progs := c15Progs()
	pi := x.Choose("program", len(progs))
	prog := progs[pi]
	x.Trace[len(x.Trace)-1].Desc = prog.name
	prev := x.Choose("previous-value", 2) == 1
	enc := x.Choose("encrypted", 2) == 1
	bound := 3
	if x.Tier() == "thorough" {
		bound = 5
	}

	dir, err := os.MkdirTemp(os.Getenv("VERIF_SCRATCH"), "c15-")
	if err != nil {
		panic(err)
	}
	defer os.RemoveAll(dir)
	opts := []fscache.Option{fscache.WithBaseDir(dir)}
	if enc {
		opts = append(opts, fscache.WithEncryption(c14EncKey))
	}
	shimos.Hook = nil
	conn, err := fscache.Open("app", opts...)
	if err != nil {
		panic(err)
	}
	keys := map[string]bool{}
	for _, th := range prog.threads {
		for _, op := range th {
			keys[op.key] = true
		}
	}
	if prev {
		for k := range keys {
			if err := conn.Set(k, c15V0); err != nil {
				panic(err)
			}
		}
	}
	s := sched.New(x, bound)
	shimos.Hook = func(ev *shimos.Event) shimos.Action {
		s.Point(ev.Op + " " + filepath.Base(ev.Path))
		return shimos.Action{}
	}
	defer func() { shimos.Hook = nil }()
	type rec struct {
		thread int
		op     c15Op
		call   int64
		ret    int64
		out    []byte
		err    error
	}
	var recs []*rec
	for ti, th := range prog.threads {
		ti, th := ti, th
		s.Go(fmt.Sprintf("T%d", ti+1), func() {
			for _, op := range th {
				r := &rec{thread: ti, op: op, call: s.Clock()}
				switch op.kind {
				case "set":
					r.err = conn.Set(op.key, append([]byte(nil), op.val...))
				case "get":
					r.out, r.err = conn.Get(op.key)
				case "del":
					r.err = conn.Delete(op.key)
				}
				r.ret = s.Clock()
				recs = append(recs, r)
			}
		})
	}
	s.Run()
	shimos.Hook = nil
	x.Transitions(s.Steps())
	for _, l := range s.Trace {
		x.Logf("%s", l)
	}
	cls := fmt.Sprintf("%s/prev=%v/enc=%v", prog.name, prev, enc)
	x.Nontrivial(cls)
	if s.Deadlock || s.Livelock {
		x.Failf("deadlock or livelock: "+prog.name, "deadlock=%v livelock=%v after %d steps", s.Deadlock, s.Livelock, s.Steps())
		return
	}
	// every Get returns, in full, a value that was passed to Set for that key, or not-exist
	var outcome []string
	for _, r := range recs {
		switch r.op.kind {
		case "get":
			switch {
			case r.err != nil && errors.Is(r.err, driver.ErrNotExist):
				outcome = append(outcome, "get:absent")
			case r.err != nil:
				outcome = append(outcome, "get:error")
				x.Failf("Get failed with an error other than not-exist: "+prog.name, "%v", r.err)
			default:
				name := map[string]string{string(c15V0): "v0", string(c15V1): "v1", string(c15V2): "v2"}[string(r.out)]
				if name == "" {
					x.Failf(fmt.Sprintf("Get returned a value that was never written: %s (len %d)", prog.name, len(r.out)), "Get(%s) returned %d bytes %q — not v0 (40xA), v1 (64xB) or v2 (24xC)", keyName(r.op.key), len(r.out), clipB(r.out))
					name = "garbage"
				}
				outcome = append(outcome, "get:"+name)
			}
		case "set":
			// a Set that reports failure is not judged by itself: in the linearizability check it may or may not have taken effect
			outcome = append(outcome, fmt.Sprintf("set:%v", r.err == nil))
		case "del":
			outcome = append(outcome, fmt.Sprintf("del:%v", r.err == nil))
			if r.err != nil && !errors.Is(r.err, driver.ErrNotExist) {
				x.Failf("Delete failed with an error other than not-exist: "+prog.name, "%v", r.err)
			}
		}
	}
	x.State(cls, strings.Join(outcome, ","))
	x.Note(strings.Join(outcome, ","))
	if x.Failed() {
		return
	}
	// linearizability per key against a register with delete
	for k := range keys {
		var ops []porcupine.Operation
		for i, r := range recs {
			if r.op.key != k {
				continue
			}
			in := c15In{kind: r.op.kind, val: string(r.op.val), failed: r.op.kind == "set" && r.err != nil}
			out := c15Out{val: string(r.out), absent: r.err != nil}
			ops = append(ops, porcupine.Operation{ClientId: r.thread, Input: in, Call: r.call*2 + 0, Output: out, Return: r.ret*2 + 1 + int64(i)*0})
		}
		init := ""
		if prev {
			init = string(c15V0)
		}
		c15FailedSetsApply = false
		ok := porcupine.CheckOperations(c15Model(init), ops)
		if !ok {
			c15FailedSetsApply = true
			ok = porcupine.CheckOperations(c15Model(init), ops)
			c15FailedSetsApply = false
		}
		if !ok {
			x.Failf("history not linearizable: "+prog.name, "completed operations on %s admit no linearization: %v", keyName(k), outcome)
		}
	}
	x.Sample(map[string]any{"program": prog.name, "previous_value": prev, "encrypted": enc, "schedule_steps": s.Steps(), "outcome": outcome})
}

type c15In struct {
	kind   string
	val    string
	failed bool // a Set that returned an error: it may have taken effect or not
}

// c15FailedSetsApply selects the reading of failed Sets for the current model pass.
var c15FailedSetsApply bool

type c15Out struct {
	val    string
	absent bool
}

func c15Model(init string) porcupine.Model {
	return porcupine.Model{
		Init: func() interface{} { return init },
		Step: func(state, input, output interface{}) (bool, interface{}) {
			st, in, out := state.(string), input.(c15In), output.(c15Out)
			switch in.kind {
			case "set":
				if in.failed {
					// porcupine explores one successor per Step; a failed Set is modelled as not having taken
					// effect unless a later Get proves otherwise — both readings are tried via two model passes
					if c15FailedSetsApply {
						return true, in.val
					}
					return true, st
				}
				return true, in.val
			case "get":
				if st == "" {
					return out.absent, st
				}
				return !out.absent && out.val == st, st
			case "del":
				if st == "" {
					return out.absent, st
				}
				return !out.absent, ""
			}
			return false, st
		},
		Equal: func(a, b interface{}) bool { return a.(string) == b.(string) },
	}
}

// runC15Cut: a lone Set is cut short at every file-system operation (and, for writes, at every byte).
func runC15Cut(x *mc.X) {
	vlen := mc.Pick(x, "value-len", []int{1, 40, 4097})
	prevKind := mc.Pick(x, "previous-value", []string{"none", "50 bytes", "same length as the new value"})
	prev := prevKind != "none"
	enc := x.Choose("encrypted", 2) == 1
	how := mc.Pick(x, "cut", []string{"die", "ENOSPC", "EIO"})
	val := bytes.Repeat([]byte("N"), vlen)
	old := bytes.Repeat([]byte("o"), 50)
	if prevKind == "same length as the new value" {
		old = bytes.Repeat([]byte("o"), vlen)
	}

	dir, err := os.MkdirTemp(os.Getenv("VERIF_SCRATCH"), "c15-")
	if err != nil {
		panic(err)
	}
	defer os.RemoveAll(dir)
	dsn := "fscache://" + dir + "?appname=app"
	opts := []fscache.Option{fscache.WithBaseDir(dir)}
	if enc {
		opts = append(opts, fscache.WithEncryption(c14EncKey))
		dsn += "&encrypt=on&encrypt_key=" + c14EncKey
	}
	shimos.Hook = nil
	conn, err := fscache.Open("app", opts...)
	if err != nil {
		panic(err)
	}
	if prev {
		if err := conn.Set(c15K, old); err != nil {
			panic(err)
		}
	}
	// first a dry run to learn the operations of one Set (whatever the current source does)
	var evs []shimos.Event
	shimos.Hook = func(ev *shimos.Event) shimos.Action { evs = append(evs, *ev); return shimos.Action{} }
	dry, _ := os.MkdirTemp(os.Getenv("VERIF_SCRATCH"), "c15dry-")
	dconn, _ := fscache.Open("app", append([]fscache.Option{fscache.WithBaseDir(dry)}, opts[1:]...)...)
	evs = nil
	if prev {
		_ = dconn.Set(c15K, old)
		evs = nil
	}
	_ = dconn.Set(c15K, val)
	shimos.Hook = nil
	os.RemoveAll(dry)
	ops := append([]shimos.Event(nil), evs...)
	if len(ops) == 0 {
		x.Failf("harness: no file-system operation observed during Set", "the os shim saw nothing")
		return
	}
	oi := x.Choose("at-operation", len(ops))
	x.Trace[len(x.Trace)-1].Desc = ops[oi].Op
	short := 0
	if (ops[oi].Op == "File.Write" || ops[oi].Op == "File.WriteAt") && ops[oi].N > 0 {
		// every byte count for short values; a grid plus both ends for the 4 KiB value (thorough: every byte)
		var ks []int
		if ops[oi].N <= 128 || x.Tier() == "thorough" {
			for k := 0; k <= ops[oi].N; k++ {
				ks = append(ks, k)
			}
		} else {
			for k := 0; k <= ops[oi].N; k += 97 {
				ks = append(ks, k)
			}
			ks = append(ks, 1, ops[oi].N-1, ops[oi].N)
		}
		short = mc.Pick(x, "bytes-written-before-the-cut", ks)
	}
	n := 0
	var inj error
	switch how {
	case "ENOSPC":
		inj = syscall.ENOSPC
	case "EIO":
		inj = syscall.EIO
	}
	s := sched.New(x, 0)
	shimos.Hook = func(ev *shimos.Event) shimos.Action {
		i := n
		n++
		if i != oi {
			return shimos.Action{}
		}
		if how == "die" {
			s.MarkDying()
			return shimos.Action{Die: true, Short: short}
		}
		return shimos.Action{Err: inj, Short: short}
	}
	setErr := conn.Set(c15K, val)
	shimos.Hook = nil
	x.Transitions(n)
	x.Logf("Set cut at operation %d (%s) after %d bytes, %s -> Set returned %v", oi, ops[oi].Op, short, how, setErr)

	allowed := func(got []byte, err error, what string) bool {
		switch {
		case err != nil && errors.Is(err, driver.ErrNotExist):
			return true
		case err != nil:
			if enc {
				return true // an undecryptable file is rejected, which is as good as absent (C17)
			}
			x.Failf("Get fails after a cut Set ("+how+" at "+ops[oi].Op+")", "%s: %v", what, err)
			return false
		case bytes.Equal(got, val), prev && bytes.Equal(got, old):
			return true
		}
		x.Failf(fmt.Sprintf("partial or mixed value after a cut Set (%s at %s, value %d B, previous=%v)", how, ops[oi].Op, vlen, prev),
			"%s returned %d bytes %q after a Set of %d bytes was cut at %s after %d bytes (%s); expected the old value, the complete new value, or absent", what, len(got), clipB(got), vlen, ops[oi].Op, short, how)
		return false
	}
	got, err := conn.Get(c15K)
	if !allowed(got, err, "Get on the same instance") {
		return
	}
	if how != "die" && setErr == nil && !(err == nil && bytes.Equal(got, val)) {
		x.Failf("Set reported success but the value is not there ("+how+" at "+ops[oi].Op+")", "Get returned %d bytes, err %v", len(got), err)
		return
	}
	re, err := fscache.Open("app", opts...)
	if err != nil {
		x.Failf("reopen fails after a cut Set", "%v", err)
		return
	}
	got2, err2 := re.Get(c15K)
	if !allowed(got2, err2, "Get after reopening the directory") {
		return
	}
	if kl, ok := any(re).(interface {
		Keys(string) ([]string, error)
	}); ok {
		ks, err := kl.Keys("")
		if err != nil {
			x.Failf("key listing fails after a cut Set ("+how+" at "+ops[oi].Op+")", "%v", err)
			return
		}
		for _, k := range ks {
			if k != c15K {
				x.Failf("key listing shows a foreign key after a cut Set", "%q", k)
			}
		}
	}
	cls := fmt.Sprintf("cut/%s/%s/len=%d/prev=%v/enc=%v", how, ops[oi].Op, vlen, prev, enc)
	x.Nontrivial(cls)
	x.State(cls, fmt.Sprint(short), fmt.Sprint(err2 == nil), fmt.Sprint(len(got2)))
	x.Sample(map[string]any{"operations_of_one_Set": opNames(ops), "cut_at": ops[oi].Op, "bytes_written": short, "how": how, "value_len": vlen, "previous_value": prev, "encrypted": enc, "get_after": fmt.Sprintf("%d bytes, err=%v", len(got2), err2)})
	_ = world.ErrInjected
	_ = dsn
}

func opNames(evs []shimos.Event) []string {
	var out []string
	for _, e := range evs {
		out = append(out, e.Op)
	}
	return out
}

// runC15TransportCut: the transport replaces a stored response while the backend's writes are cut at every
// file-system operation; afterwards a fresh transport over the same directory must serve a complete body.
func runC15TransportCut(x *mc.X) {
	enc := x.Choose("encrypted", 2) == 1
	how := mc.Pick(x, "cut", []string{"die", "ENOSPC"})
	dir, err := os.MkdirTemp(os.Getenv("VERIF_SCRATCH"), "c15t-")
	if err != nil {
		panic(err)
	}
	defer os.RemoveAll(dir)
	dsn := "fscache://" + dir + "?appname=app"
	if enc {
		dsn += "&encrypt=on&encrypt_key=" + c14EncKey
	}
	bodyOld := []byte("tok1|" + strings.Repeat("old-", 100))
	bodyNew := []byte("tok2|" + strings.Repeat("NEW+", 300))
	run := func(hook func(ev *shimos.Event) shimos.Action) (ops []shimos.Event, w *world.W) {
		shimos.Hook = nil
		w = world.New(world.Opt{DSN: dsn})
		answer(w, RS{Status: 200, H: H("Cache-Control", "max-age=1000"), Body: bodyOld})
		get(w, U)
		world.Advance(secs(5))
		answer(w, RS{Status: 200, H: H("Cache-Control", "max-age=1000"), Body: bodyNew})
		shimos.Hook = func(ev *shimos.Event) shimos.Action {
			ops = append(ops, *ev)
			if hook != nil {
				return hook(ev)
			}
			return shimos.Action{}
		}
		o := get(w, U, "Cache-Control", "no-cache")
		shimos.Hook = nil
		logObs(x, "GET no-cache (origin: 200 new body), backend writes cut", o)
		return ops, w
	}
	// dry run in a scratch copy of the scenario to learn the operations
	dry, _ := os.MkdirTemp(os.Getenv("VERIF_SCRATCH"), "c15td-")
	saveDSN := dsn
	dsn = strings.Replace(dsn, dir, dry, 1)
	ops, _ := run(nil)
	os.RemoveAll(dry)
	dsn = saveDSN
	var writes []int
	for i, ev := range ops {
		if strings.HasPrefix(ev.Op, "File.Write") || strings.Contains(ev.Op, "Rename") || strings.Contains(ev.Op, "Create") || strings.Contains(ev.Op, "OpenFile") || ev.Op == "File.Sync" || ev.Op == "File.Close" || strings.Contains(ev.Op, "Mkdir") {
			writes = append(writes, i)
		}
	}
	if len(writes) == 0 {
		x.Failf("harness: no write operations observed", "%v", opNames(ops))
		return
	}
	oi := mc.Pick(x, "at-operation", writes)
	x.Trace[len(x.Trace)-1].Desc = ops[oi].Op
	short := 0
	if ops[oi].Op == "File.Write" {
		var ks []int
		for k := 0; k <= ops[oi].N; k += max(1, ops[oi].N/24) {
			ks = append(ks, k)
		}
		short = mc.Pick(x, "bytes-written-before-the-cut", ks)
	}
	n := 0
	s := sched.New(x, 0)
	_, w := run(func(ev *shimos.Event) shimos.Action {
		i := n
		n++
		if i != oi {
			return shimos.Action{}
		}
		if how == "die" {
			s.MarkDying()
			return shimos.Action{Die: true, Short: short}
		}
		return shimos.Action{Err: syscall.ENOSPC, Short: short}
	})
	x.Transitions(n)
	// a fresh transport over the same directory (as after a restart)
	w2 := world.NewWithOrigin(world.Opt{DSN: dsn}, w.Origin)
	answer(w2, RS{Status: 200, H: H("Cache-Control", "no-store"), Body: []byte("tok3|fresh-from-origin")})
	o := get(w2, U)
	logObs(x, "GET on a fresh transport over the same directory", o)
	cls := fmt.Sprintf("transport-cut/%s/%s/enc=%v", how, ops[oi].Op, enc)
	x.Nontrivial(cls)
	x.State(cls, fmt.Sprint(short), obsClass(o), o.Tok)
	x.Sample(map[string]any{"cut_at": ops[oi].Op, "how": how, "bytes_written": short, "encrypted": enc, "observed": o.String()})
	if o.Panic != nil || o.Err != nil {
		return // C10
	}
	if o.BodyErr != nil || !(bytes.Equal(o.Body, bodyOld) || bytes.Equal(o.Body, bodyNew) || bytes.Equal(o.Body, []byte("tok3|fresh-from-origin"))) {
		x.Failf(fmt.Sprintf("transport served a truncated or spliced body after a cut write (%s at %s)", how, ops[oi].Op),
			"body of %d bytes %q (read error %v) is neither the old stored body (%d B), the new one (%d B) nor the origin's", len(o.Body), clipB(o.Body), o.BodyErr, len(bodyOld), len(bodyNew))
	}
}

// ---- conformance of the in-process cut model with real process death
//
// The same lone Set is cut at the same file-system operation (and byte count) twice: in-process (the writing
// goroutine is ended with Goexit) and in a real child process that SIGKILLs itself at that point. The two
// directories must be identical (names of temporary files canonicalised), i.e. the simulated death leaves
// exactly what the kernel leaves behind.

// c15TreeDump lists the files under dir as (name, size, content hash). entries holds the relative paths at
// which a complete Set leaves values (learned from a dry run); every other file is a temporary of whatever
// naming scheme the backend uses and is listed without its (random) name.
func c15TreeDump(dir string, entries map[string]bool) string {
	files := c17Files(dir)
	var lines []string
	for p, b := range files {
		rel, _ := filepath.Rel(dir, p)
		if !entries[rel] {
			rel = "<temporary>"
		}
		lines = append(lines, fmt.Sprintf("%s %d %x", rel, len(b), hashBytes(b)))
	}
	sort.Strings(lines)
	return strings.Join(lines, "\n") + "\n"
}

// c15CutSet performs Set(c15K, val) on dir, cut at operation index oi after short bytes; die is called at the cut.
func c15CutSet(dir string, val []byte, oi, short int, markDying func()) {
	conn, err := fscache.Open("app", fscache.WithBaseDir(dir))
	if err != nil {
		panic(err)
	}
	n := 0
	shimos.Hook = func(ev *shimos.Event) shimos.Action {
		i := n
		n++
		if i != oi {
			return shimos.Action{}
		}
		if markDying != nil {
			markDying()
		}
		return shimos.Action{Die: true, Short: short}
	}
	_ = conn.Set(c15K, val)
	shimos.Hook = nil
}

func runC15Conformance(x *mc.X) {
	vlen := mc.Pick(x, "value-len", []int{1, 40, 4097})
	prev := x.Choose("previous-value", 2) == 1
	val := bytes.Repeat([]byte("N"), vlen)
	old := bytes.Repeat([]byte("o"), 50)
	mk := func() string {
		d, err := os.MkdirTemp(os.Getenv("VERIF_SCRATCH"), "c15c-")
		if err != nil {
			panic(err)
		}
		if prev {
			shimos.Hook = nil
			c, _ := fscache.Open("app", fscache.WithBaseDir(d))
			_ = c.Set(c15K, old)
		}
		return d
	}
	// learn the operations of one Set
	var evs []shimos.Event
	dry := mk()
	shimos.Hook = func(ev *shimos.Event) shimos.Action { evs = append(evs, *ev); return shimos.Action{} }
	dc, _ := fscache.Open("app", fscache.WithBaseDir(dry))
	evs = nil
	_ = dc.Set(c15K, val)
	shimos.Hook = nil
	entries := map[string]bool{}
	for p := range c17Files(dry) {
		rel, _ := filepath.Rel(dry, p)
		entries[rel] = true
	}
	os.RemoveAll(dry)
	if len(evs) == 0 {
		x.Failf("harness: no file-system operation observed during Set", "")
		return
	}
	oi := x.Choose("at-operation", len(evs))
	x.Trace[len(x.Trace)-1].Desc = evs[oi].Op
	short := 0
	if evs[oi].Op == "File.Write" && evs[oi].N > 0 {
		ks := []int{0, 1, evs[oi].N / 2, evs[oi].N - 1, evs[oi].N}
		if evs[oi].N <= 64 || x.Tier() == "thorough" {
			ks = nil
			for k := 0; k <= evs[oi].N; k += max(1, evs[oi].N/64) {
				ks = append(ks, k)
			}
		}
		seen := map[int]bool{}
		var uniq []int
		for _, k := range ks {
			if k >= 0 && k <= evs[oi].N && !seen[k] {
				seen[k] = true
				uniq = append(uniq, k)
			}
		}
		short = mc.Pick(x, "bytes-written-before-the-cut", uniq)
	}
	// in-process
	a := mk()
	defer os.RemoveAll(a)
	s := sched.New(x, 0)
	c15CutSet(a, val, oi, short, s.MarkDying)
	// real child process
	b := mk()
	defer os.RemoveAll(b)
	cmd := exec.Command(os.Args[0], "-test.run", "^TestC15Child$", "-test.count", "1")
	cmd.Env = append(os.Environ(), fmt.Sprintf("VERIF_C15_CHILD=%s|%d|%d|%d", b, vlen, oi, short))
	out, err := cmd.CombinedOutput()
	killed := false
	if ee, ok := err.(*exec.ExitError); ok {
		if ws, ok := ee.Sys().(syscall.WaitStatus); ok && ws.Signaled() && ws.Signal() == syscall.SIGKILL {
			killed = true
		}
	}
	if !killed {
		x.Failf("harness: the child process did not die at the cut point", "err=%v output=%s", err, clipStr(string(out), 500))
		return
	}
	da, db := c15TreeDump(a, entries), c15TreeDump(b, entries)
	x.Transitions(2 * (oi + 1))
	cls := fmt.Sprintf("conformance/%s/len=%d/prev=%v", evs[oi].Op, vlen, prev)
	x.Nontrivial(cls)
	x.State(cls, fmt.Sprint(short), da)
	x.Note("simulated death == real SIGKILL: " + fmt.Sprint(da == db))
	x.Sample(map[string]any{"cut_at": evs[oi].Op, "bytes_written": short, "value_len": vlen, "previous_value": prev, "directory_after_simulated_death": da, "directory_after_real_SIGKILL": db})
	if da != db {
		x.Failf("harness: simulated death differs from a real SIGKILL", "cut at %s after %d bytes:\n in-process:\n%s child process:\n%s", evs[oi].Op, short, da, db)
	}
}

// TestC15Child is the body of the child process: it performs the Set and kills itself at the cut point.
func TestC15Child(t *testing.T) {
	spec := os.Getenv("VERIF_C15_CHILD")
	if spec == "" {
		t.Skip("not a child")
	}
	var dir string
	var vlen, oi, short int
	parts := strings.Split(spec, "|")
	dir = parts[0]
	fmt.Sscan(parts[1], &vlen)
	fmt.Sscan(parts[2], &oi)
	fmt.Sscan(parts[3], &short)
	shimos.DieFunc = func() { _ = syscall.Kill(os.Getpid(), syscall.SIGKILL); select {} }
	c15CutSet(dir, bytes.Repeat([]byte("N"), vlen), oi, short, nil)
	t.Fatal("the child survived the cut point")
}
