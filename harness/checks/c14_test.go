package checks

import (
	"bytes"
	"encoding/json"
	"errors"
	"fmt"
	"io/fs"
	"net/http"
	"net/http/httptest"
	"net/url"
	"os"
	"path/filepath"
	"sort"
	"strings"
	"testing"
	"time"
	"unicode/utf8"

	"verifharness/mc"

	"github.com/bartventer/httpcache/store"
	"github.com/bartventer/httpcache/store/driver"
	"github.com/bartventer/httpcache/store/expapi"
)

// C14 — each backend behaves as an exact, byte-preserving map (explicit-state BFS to a fixpoint).
func init() {
	register(&Check{ID: "C14", Custom: customC14, ReplayCustom: replayC14, NoBubble: true})
}

func c14Keys() []string {
	p36 := "http://example.com/aaaaaaaaaaaaaaaaa" // 36 bytes: encodes to exactly 48 characters
	if len(p36) != 36 {
		panic(len(p36))
	}
	long := func(prefix string, n int, fill byte) string {
		return prefix + strings.Repeat(string(fill), n-len(prefix))
	}
	all := make([]byte, 256)
	for i := range all {
		all[i] = byte(i)
	}
	return []string{
		"a",
		"a#1",
		p36,                                    // a 48-character file name …
		long(p36, 236, 'b'),                    // … that is also the first directory of this fragmented key
		long("k191-", 191, 'x'),                // 255 encoded characters: longest unfragmented name
		long("k192-", 192, 'y'),                // 256 encoded characters: shortest fragmented name
		long("http://h/282-", 282, 'z'),        // 376 encoded characters: ends exactly on a fragment boundary (8 x 47), no partial base64 group …
		long("http://h/282-", 282, 'z') + "#0", // … so the encoding of its extension starts with it and needs the last fragment as a directory
		long(p36, 300, 'c'),                    // shares its first fragment with two other keys
		string(all),                            // every byte value
		"",                                     // the empty key
		"a\xffz",                               // the byte after the prefix "a" is 0xFF
		"a%41",                                 // text that looks like a percent-escape (its "decoded" twin "aA" is another key)
	}
}

func c14Values(tier string) [][]byte {
	v2 := make([]byte, 4096)
	for i := range v2 {
		v2[i] = byte(i * 7)
	}
	return [][]byte{[]byte("v1!"), v2, {}} // 3 bytes, 4 KiB of all byte values, and the empty value
}

type c14Op struct {
	Kind string `json:"kind"` // set | del | reopen | apidel
	Key  int    `json:"key"`
	Val  int    `json:"val"`
}

func (o c14Op) String() string { return fmt.Sprintf("%s(k%d,v%d)", o.Kind, o.Key, o.Val) }

type c14Inst struct {
	backend string
	dir     string
	dsn     string
	conn    driver.Conn
	mux     *http.ServeMux
}

const c14EncKey = "6S-Ks2YYOW0xMvTzKSv6QD30gZeOi1c6Ydr-As5csWk="

func c14Open(backend string) (*c14Inst, error) {
	in := &c14Inst{backend: backend}
	if backend == "memcache" {
		c, err := store.Open("memcache://")
		in.conn = c
		return in, err
	}
	dir, err := os.MkdirTemp(os.Getenv("VERIF_SCRATCH"), "c14-")
	if err != nil {
		return nil, err
	}
	in.dir = dir
	in.dsn = "fscache://" + dir + "?appname=app"
	if backend == "fscache-enc" {
		in.dsn += "&encrypt=on&encrypt_key=" + c14EncKey
	}
	if backend == "fscache-mtime" {
		in.dsn += "&update_mtime=on&timeout=0&connect_timeout=0s" // (zero timeouts mean the defaults)
	}
	in.conn, err = store.Open(in.dsn)
	if err != nil {
		return in, err
	}
	in.mux = http.NewServeMux()
	expapi.Register(expapi.WithServeMux(in.mux))
	return in, nil
}

func (in *c14Inst) close() {
	if in.dir != "" {
		_ = os.RemoveAll(in.dir)
	}
}

func (in *c14Inst) reopen() error {
	if in.dsn == "" {
		return nil
	}
	c, err := store.Open(in.dsn)
	if err == nil {
		in.conn = c
	}
	return err
}

func (in *c14Inst) api(method, path string) *httptest.ResponseRecorder {
	rec := httptest.NewRecorder()
	req := httptest.NewRequest(method, path, nil)
	in.mux.ServeHTTP(rec, req)
	return rec
}

// tree returns the sorted directory tree (names and kinds only) — the backend's hidden state.
func (in *c14Inst) tree() string {
	if in.dir == "" {
		return ""
	}
	var names []string
	_ = filepath.WalkDir(in.dir, func(p string, d fs.DirEntry, err error) error {
		if err != nil || p == in.dir {
			return nil
		}
		rel, _ := filepath.Rel(in.dir, p)
		if d.IsDir() {
			rel += "/"
		}
		names = append(names, rel)
		return nil
	})
	sort.Strings(names)
	return strings.Join(names, "\n")
}

// c14Apply performs op on the instance and the model, comparing every answer. Returns a mismatch description or "".
func c14Apply(in *c14Inst, model map[string][]byte, keys []string, vals [][]byte, op c14Op) string {
	switch op.Kind {
	case "set":
		k, v := keys[op.Key], vals[op.Val]
		buf := append([]byte(nil), v...)
		err := in.conn.Set(k, buf)
		for i := range buf {
			buf[i] ^= 0xAA // the caller reuses its buffer
		}
		if err != nil {
			return fmt.Sprintf("Set(%s) failed: %v", keyName(k), err)
		}
		model[k] = append([]byte(nil), v...)
	case "del", "apidel":
		k := keys[op.Key]
		_, had := model[k]
		if op.Kind == "apidel" && in.mux != nil && k != "" {
			rec := in.api("DELETE", "/debug/httpcache/"+url.PathEscape(k)+"?dsn="+url.QueryEscape(in.dsn))
			want := http.StatusNoContent
			if !had {
				want = http.StatusNotFound
			}
			if rec.Code != want {
				return fmt.Sprintf("API DELETE %s: status %d, want %d (%s)", keyName(k), rec.Code, want, strings.TrimSpace(rec.Body.String()))
			}
		} else {
			err := in.conn.Delete(k)
			switch {
			case had && err != nil:
				return fmt.Sprintf("Delete(%s) of a live key failed: %v", keyName(k), err)
			case !had && !errors.Is(err, driver.ErrNotExist):
				return fmt.Sprintf("Delete(%s) of an absent key: want the not-exist error, got %v", keyName(k), err)
			}
		}
		delete(model, k)
	case "reopen":
		if err := in.reopen(); err != nil {
			return "reopen failed: " + err.Error()
		}
	}
	if in.backend == "fscache+reopen" {
		if err := in.reopen(); err != nil {
			return "reopen failed: " + err.Error()
		}
	}
	return c14Compare(in, model, keys)
}

func keyName(k string) string {
	if len(k) > 24 {
		return fmt.Sprintf("%q…(%dB)", k[:16], len(k))
	}
	return fmt.Sprintf("%q", k)
}

// c14Compare checks every Get, every listing and the maintenance API against the model.
func c14Compare(in *c14Inst, model map[string][]byte, keys []string) string {
	// buffers handed out by Get belong to the caller: they must survive later Gets of any key
	held := map[string][]byte{}
	for _, k := range keys {
		if v, err := in.conn.Get(k); err == nil {
			held[k] = v
		}
	}
	for _, k := range keys {
		_, _ = in.conn.Get(k)
	}
	for k, v := range held {
		if want, live := model[k]; live && !bytes.Equal(v, want) {
			return fmt.Sprintf("Get(%s): the returned buffer changed after later Gets (now differs from the stored value at byte %d)", keyName(k), firstDiff(v, want))
		}
	}
	for _, k := range keys {
		got, err := in.conn.Get(k)
		want, live := model[k]
		switch {
		case live && err != nil:
			return fmt.Sprintf("Get(%s): live key reports %v", keyName(k), err)
		case live && !bytes.Equal(got, want):
			return fmt.Sprintf("Get(%s): %d bytes returned, want the %d bytes of the latest Set (first difference at %d)", keyName(k), len(got), len(want), firstDiff(got, want))
		case !live && err == nil:
			return fmt.Sprintf("Get(%s): absent key returned %d bytes", keyName(k), len(got))
		case !live && !errors.Is(err, driver.ErrNotExist):
			return fmt.Sprintf("Get(%s): absent key must report the not-exist error, got %v", keyName(k), err)
		}
		if live && len(got) > 0 {
			got[0] ^= 0xFF // the caller scribbles on the returned buffer
			again, err := in.conn.Get(k)
			if err != nil || !bytes.Equal(again, want) {
				return fmt.Sprintf("Get(%s): value changed after the caller modified a returned buffer", keyName(k))
			}
		}
	}
	kl, ok := in.conn.(expapi.KeyLister)
	if !ok {
		return ""
	}
	prefixes := []string{"", "a", keys[0]}
	for _, k := range keys {
		if len(k) >= 36 {
			prefixes = append(prefixes, k[:36], k[:36]+"b")
			break
		}
	}
	for _, p := range prefixes {
		got, err := kl.Keys(p)
		if err != nil {
			return fmt.Sprintf("Keys(%s) failed: %v", keyName(p), err)
		}
		var want []string
		for k := range model {
			if strings.HasPrefix(k, p) {
				want = append(want, k)
			}
		}
		sort.Strings(want)
		sort.Strings(got)
		if strings.Join(got, "\x00|") != strings.Join(want, "\x00|") {
			return fmt.Sprintf("Keys(%s) = %d keys %v, want %d keys %v", keyName(p), len(got), names(got), len(want), names(want))
		}
	}
	if in.mux != nil {
		for _, k := range keys {
			if k == "" {
				continue // not addressable as a path segment
			}
			rec := in.api("GET", "/debug/httpcache/"+url.PathEscape(k)+"?dsn="+url.QueryEscape(in.dsn))
			want, live := model[k]
			switch {
			case live && (rec.Code != 200 || !bytes.Equal(rec.Body.Bytes(), want)):
				return fmt.Sprintf("API GET %s: status %d with %d bytes, want 200 with %d bytes", keyName(k), rec.Code, rec.Body.Len(), len(want))
			case !live && rec.Code != http.StatusNotFound:
				return fmt.Sprintf("API GET %s: absent key answered %d", keyName(k), rec.Code)
			}
		}
		for _, p := range prefixes {
			if !utf8.ValidString(p) {
				continue // not expressible as a query parameter value that survives the round trip
			}
			q := "/debug/httpcache?dsn=" + url.QueryEscape(in.dsn)
			if p != "" {
				q += "&prefix=" + url.QueryEscape(p)
			}
			rec := in.api("GET", q)
			var body struct {
				Keys []string `json:"keys"`
			}
			if rec.Code != 200 || json.Unmarshal(rec.Body.Bytes(), &body) != nil {
				return fmt.Sprintf("API list (prefix %s): status %d body %q", keyName(p), rec.Code, clipStr(rec.Body.String(), 200))
			}
			// JSON cannot carry arbitrary bytes: compare after the same lossy encoding
			var want []string
			for k := range model {
				if !strings.HasPrefix(k, p) {
					continue
				}
				b, _ := json.Marshal(k)
				var s string
				_ = json.Unmarshal(b, &s)
				want = append(want, s)
			}
			sort.Strings(want)
			sort.Strings(body.Keys)
			if strings.Join(body.Keys, "\x00|") != strings.Join(want, "\x00|") {
				return fmt.Sprintf("API list (prefix %s) = %v, want %v", keyName(p), names(body.Keys), names(want))
			}
		}
	}
	return ""
}

func names(ks []string) []string {
	out := make([]string, len(ks))
	for i, k := range ks {
		out[i] = keyName(k)
	}
	return out
}

func firstDiff(a, b []byte) int {
	for i := 0; i < len(a) && i < len(b); i++ {
		if a[i] != b[i] {
			return i
		}
	}
	return min(len(a), len(b))
}

type c14Scenario struct {
	Backend string   `json:"backend"`
	Keys    []int    `json:"keys"`          // indexes into c14Keys()
	Raw     []string `json:"raw,omitempty"` // explicit keys (length sweep) instead of indexes
}

// c14Run replays path on a fresh instance; returns the mismatch (if any), the canonical state and the model.
func c14Run(sc c14Scenario, path []c14Op, tier string) (mismatch string, state string, model map[string][]byte) {
	all := c14Keys()
	keys := make([]string, len(sc.Keys))
	for i, ki := range sc.Keys {
		keys[i] = all[ki]
	}
	if len(sc.Raw) > 0 {
		keys = sc.Raw
	}
	vals := c14Values(tier)
	backend := sc.Backend
	open := backend
	if backend == "fscache+reopen" || backend == "fscache-api" {
		open = "fscache"
	}
	if backend == "fscache-mtime" {
		open = "fscache-mtime"
	}
	in, err := c14Open(open)
	if err != nil {
		if in != nil {
			in.close()
		}
		return "open failed: " + err.Error(), "", nil
	}
	in.backend = backend
	defer in.close()
	model = map[string][]byte{}
	for i, op := range path {
		if m := c14Apply(in, model, keys, vals, op); m != "" {
			return fmt.Sprintf("after %v (step %d): %s", path[:i+1], i+1, m), "", model
		}
	}
	// canonical implementation state: hidden directory structure + what every Get returns
	var sb strings.Builder
	sb.WriteString(in.tree())
	for i, k := range keys {
		v, err := in.conn.Get(k)
		fmt.Fprintf(&sb, "|k%d:%v:%x", i, err == nil, hashBytes(v))
	}
	return "", sb.String(), model
}

func hashBytes(b []byte) uint32 { return strHash(string(b)) }

func c14Scenarios(tier string) []c14Scenario {
	n := len(c14Keys())
	// keys whose file names can interact (shared first fragment / boundary + extension)
	prone := map[int]bool{2: true, 3: true, 6: true, 7: true, 8: true}
	var subsets [][]int
	var rec func(size, start int, cur []int, keep func([]int) bool)
	rec = func(size, start int, cur []int, keep func([]int) bool) {
		if len(cur) == size {
			if keep(cur) {
				subsets = append(subsets, append([]int{}, cur...))
			}
			return
		}
		for i := start; i < n; i++ {
			rec(size, i+1, append(cur, i), keep)
		}
	}
	all := func([]int) bool { return true }
	twoProne := func(s []int) bool {
		c := 0
		for _, k := range s {
			if prone[k] {
				c++
			}
		}
		return c >= 2
	}
	if tier == "thorough" {
		rec(3, 0, nil, all)      // every triple
		rec(4, 0, nil, twoProne) // quadruples around the interacting keys
	} else {
		rec(2, 0, nil, all)      // every pair
		rec(3, 0, nil, twoProne) // triples around the interacting keys
	}
	var out []c14Scenario
	for _, b := range []string{"memcache", "fscache", "fscache-enc", "fscache+reopen", "fscache-api"} {
		for _, s := range subsets {
			if tier != "thorough" && len(s) == 3 && b != "fscache" && b != "fscache-enc" {
				continue // quick: triples on the plain and the encrypted file-system backend only
			}
			out = append(out, c14Scenario{Backend: b, Keys: s})
		}
	}
	return out
}

func customC14(t *testing.T, e *mc.Explorer) *mc.ShardResult {
	start := time.Now()
	res := &mc.ShardResult{Property: "C14", Tier: e.Tier, Shard: e.Shard, Shards: e.Shards, Exhaustive: true, Nontrivial: map[string]int{}, Notes: map[string]int{}, Extra: map[string]any{}}
	viol := map[string]*mc.Violation{}
	scs := c14Scenarios(e.Tier)
	nv := len(c14Values(e.Tier))
	fixpoints, maxDepth := 0, 0
	for si, sc := range scs {
		if si%e.Shards != e.Shard {
			continue
		}
		if !e.Deadline.IsZero() && time.Now().After(e.Deadline) {
			res.Exhaustive = false
			break
		}
		// explicit-state BFS over implementation states; successors by replaying the shortest path + one op
		type node struct{ path []c14Op }
		seen := map[string]bool{}
		_, s0, _ := c14Run(sc, nil, e.Tier)
		seen[s0] = true
		frontier := []node{{nil}}
		var ops []c14Op
		for k := range sc.Keys {
			for v := 0; v < nv; v++ {
				ops = append(ops, c14Op{"set", k, v})
			}
			del := "del"
			if sc.Backend == "fscache-api" {
				del = "apidel"
			}
			ops = append(ops, c14Op{del, k, 0})
		}
		if sc.Backend == "fscache" || sc.Backend == "fscache-enc" {
			ops = append(ops, c14Op{"reopen", 0, 0})
		}
		bad := false
		for len(frontier) > 0 && !bad {
			cur := frontier[0]
			frontier = frontier[1:]
			for _, op := range ops {
				path := append(append([]c14Op{}, cur.path...), op)
				mismatch, st, model := c14Run(sc, path, e.Tier)
				res.Executions++
				res.Transitions += int64(len(path))
				if mismatch != "" {
					sig := c14Signature(sc, mismatch)
					if v, ok := viol[sig]; ok {
						v.Count++
					} else {
						detail, _ := json.Marshal(map[string]any{"scenario": sc, "path": path})
						viol[sig] = &mc.Violation{Property: "C14", Signature: sig, Count: 1, Shard: e.Shard, Choices: []int{},
							Message: fmt.Sprintf("backend %s, keys %v: %s", sc.Backend, c14KeyNames(sc), mismatch),
							Trace:   []mc.Pt{{Label: "replay", Desc: string(detail)}}}
					}
					bad = true // the shortest counterexample of this scenario is enough
					break
				}
				e.AddState(sc.Backend, fmt.Sprint(sc.Keys), st)
				if !seen[st] {
					seen[st] = true
					frontier = append(frontier, node{path})
					if len(path) > maxDepth {
						maxDepth = len(path)
					}
					res.Nontrivial[fmt.Sprintf("%s/live=%d", sc.Backend, len(model))]++
				}
			}
		}
		if !bad {
			fixpoints++
		}
		res.Notes[fmt.Sprintf("%s: states per scenario ~%d", sc.Backend, (len(seen)+4)/5*5)]++
		if len(res.Samples) < 3 && si%7 == 0 {
			res.Samples = append(res.Samples, map[string]any{"backend": sc.Backend, "keys": c14KeyNames(sc), "operations": len(ops), "reachable_states": len(seen), "fixpoint": !bad})
		}
	}
	// ---- length sweep: for EVERY key length in a range that covers the file-name and fragment boundaries of any
	// plausible layout, the key and an extension of it (key + "#0", key + "/x", key + "z") go through a fixed
	// history on each file-system configuration, compared with the map after every step.
	lo, hi := 150, 330
	if e.Tier == "thorough" {
		lo, hi = 1, 800
	}
	sweepPath := []c14Op{{"set", 0, 0}, {"set", 1, 1}, {"del", 0, 0}, {"set", 0, 1}, {"set", 1, 0}, {"reopen", 0, 0}, {"del", 1, 0}, {"set", 1, 2}, {"del", 0, 0}, {"del", 1, 0}}
	swept := 0
	for L := lo; L <= hi; L++ {
		if L%e.Shards != e.Shard {
			continue
		}
		if !e.Deadline.IsZero() && time.Now().After(e.Deadline) {
			res.Exhaustive = false
			break
		}
		base := "http://example.com/sweep?"
		for len(base) < L {
			base += string(rune('a' + len(base)%26))
		}
		base = base[:L]
		for _, ext := range []string{"#0", "/x", "z"} {
			for _, b := range []string{"fscache", "fscache-enc", "fscache-mtime"} {
				sc := c14Scenario{Backend: b, Raw: []string{base, base + ext}}
				mismatch, _, _ := c14Run(sc, sweepPath, e.Tier)
				res.Executions++
				res.Transitions += int64(len(sweepPath))
				swept++
				if mismatch != "" {
					sig := "length sweep: " + c14Signature(sc, mismatch)
					if v, ok := viol[sig]; ok {
						v.Count++
					} else {
						detail, _ := json.Marshal(map[string]any{"scenario": sc, "path": sweepPath})
						viol[sig] = &mc.Violation{Property: "C14", Signature: sig, Count: 1, Shard: e.Shard, Choices: []int{},
							Message: fmt.Sprintf("backend %s, key of %d bytes and its extension by %q: %s", b, L, ext, mismatch),
							Trace:   []mc.Pt{{Label: "replay", Desc: string(detail)}}}
					}
				}
			}
		}
	}
	res.Extra["length_sweep_histories"] = swept
	// ---- histories WITHOUT state merging: the breadth-first search above merges histories that lead to the same
	// directory tree and the same answers, which is only sound if the backend object keeps nothing else in memory.
	// Every sequence of up to four operations on one key (three on a key and a sibling in the same directory) is
	// therefore also run as it is, on one live object.
	seqs := 0
	{
		long := c15LongKey
		type job struct {
			backend string
			keys    []string
			depth   int
		}
		var jobs []job
		for _, b := range []string{"fscache", "fscache-enc", "memcache"} {
			for _, k := range []string{"a", long, c14Keys()[5]} {
				jobs = append(jobs, job{b, []string{k}, 4})
			}
			jobs = append(jobs, job{b, []string{long, long + "-sibling"}, 3})
		}
		for ji, j := range jobs {
			if ji%e.Shards != e.Shard {
				continue
			}
			var ops []c14Op
			for k := range j.keys {
				ops = append(ops, c14Op{"set", k, 0}, c14Op{"set", k, 1}, c14Op{"del", k, 0})
			}
			if j.backend != "memcache" {
				ops = append(ops, c14Op{"reopen", 0, 0})
			}
			var rec func(path []c14Op)
			rec = func(path []c14Op) {
				if len(path) == j.depth {
					sc := c14Scenario{Backend: j.backend, Raw: j.keys}
					m, _, _ := c14Run(sc, path, e.Tier)
					seqs++
					res.Executions++
					res.Transitions += int64(len(path))
					if m != "" {
						sig := "unmerged history: " + c14Signature(sc, m)
						if v, ok := viol[sig]; ok {
							v.Count++
						} else {
							detail, _ := json.Marshal(map[string]any{"scenario": sc, "path": path})
							viol[sig] = &mc.Violation{Property: "C14", Signature: sig, Count: 1, Shard: e.Shard, Choices: []int{},
								Message: fmt.Sprintf("backend %s, keys %v: %s", j.backend, c14KeyNames(sc), m), Trace: []mc.Pt{{Label: "replay", Desc: string(detail)}}}
						}
					}
					return
				}
				for _, op := range ops {
					rec(append(append([]c14Op{}, path...), op))
				}
			}
			rec(nil)
		}
	}
	res.Extra["unmerged_histories"] = seqs
	// ---- value sizes around the powers of two a chunked writer or a cipher might use (with and without the 28 bytes of
	// nonce + tag): Set, Get, overwrite with a shorter value, Get, on the plain and the encrypted file-system backend
	// and the memory backend
	sizes := 0
	for si, n := range []int{4095, 4096, 4097, 65536 - 28, 65535, 65536, 65537, 131072 - 28, 131072, 1<<20 - 28, 1 << 20, 1<<20 + 1} {
		if si%e.Shards != e.Shard {
			continue
		}
		for _, b := range []string{"fscache", "fscache-enc", "memcache"} {
			sizes++
			res.Executions++
			res.Transitions += 4
			if m := c14Sizes(b, n); m != "" {
				sig := fmt.Sprintf("value size: %s: %s", map[bool]string{true: "fscache*", false: b}[strings.HasPrefix(b, "fscache")], strings.SplitN(m, ":", 2)[0])
				if v, ok := viol[sig]; ok {
					v.Count++
				} else {
					detail, _ := json.Marshal(map[string]any{"size": map[string]any{"backend": b, "n": n}})
					viol[sig] = &mc.Violation{Property: "C14", Signature: sig, Count: 1, Shard: e.Shard, Choices: []int{},
						Message: fmt.Sprintf("backend %s, value of %d bytes: %s", b, n, m), Trace: []mc.Pt{{Label: "replay", Desc: string(detail)}}}
				}
			}
		}
	}
	res.Extra["value_size_round_trips"] = sizes
	// ---- residue of a killed writer: a Set that dies (real SIGKILL of a child process) at each of its file-system
	// operations leaves the directory in some intermediate shape; a backend opened on it afterwards must still be a
	// map: the key holds its old or its new value, everything else — listing included — is as before.
	residues := 0
	for ri, rk := range []string{"http://example.com/r#0", c15LongKey} {
		for _, b := range []string{"fscache", "fscache-enc"} {
			for at := 0; at < 12; at++ {
				if (ri*24+at)%e.Shards != e.Shard {
					continue
				}
				m := c14Residue(b, rk, at)
				if m == "skip" {
					break // the Set has fewer operations than that
				}
				residues++
				res.Executions++
				res.Transitions += 4
				if m != "" {
					sig := "after a killed Set: " + c14Signature(c14Scenario{Backend: b}, m)
					if v, ok := viol[sig]; ok {
						v.Count++
					} else {
						detail, _ := json.Marshal(map[string]any{"residue": map[string]any{"backend": b, "key": rk, "at": at}})
						viol[sig] = &mc.Violation{Property: "C14", Signature: sig, Count: 1, Shard: e.Shard, Choices: []int{},
							Message: fmt.Sprintf("backend %s, key %s, writer killed at its file-system operation #%d: %s", b, keyName(rk), at, m),
							Trace:   []mc.Pt{{Label: "replay", Desc: string(detail)}}}
					}
				}
			}
		}
	}
	res.Extra["killed_writer_residues"] = residues
	sigs := make([]string, 0, len(viol))
	for s := range viol {
		sigs = append(sigs, s)
	}
	sort.Strings(sigs)
	for _, s := range sigs {
		res.Violations = append(res.Violations, viol[s])
	}
	res.MaxDepth = maxDepth
	res.Extra["scenarios_run_to_fixpoint"] = fixpoints
	res.WallS = time.Since(start).Seconds()
	return res
}

func c14KeyNames(sc c14Scenario) []string {
	all := c14Keys()
	var out []string
	for _, k := range sc.Raw {
		out = append(out, keyName(k))
	}
	if len(sc.Raw) > 0 {
		return out
	}
	for _, k := range sc.Keys {
		out = append(out, keyName(all[k]))
	}
	return out
}

// c14Signature names the failing operation and the key shapes involved.
func c14Signature(sc c14Scenario, mismatch string) string {
	shape := map[int]string{0: "short", 1: "short#", 2: "36B(48 chars)", 3: "236B ext of 36B", 4: "191B", 5: "192B", 6: "282B", 7: "282B#0", 8: "300B ext of 36B", 9: "bytes 0-255", 10: "empty"}
	what := mismatch
	if i := strings.Index(what, "): "); i >= 0 {
		what = what[i+3:]
	}
	if i := strings.IndexAny(what, "(:"); i > 0 {
		what = what[:i]
	}
	_ = shape
	cls := "wrong answer"
	for _, c := range []string{"returned buffer changed", "empty path", "not a directory", "is a directory", "file name too long", "no such file", "changed after the caller modified", "want the not-exist error", "must report the not-exist error", "first difference", "keys"} {
		if strings.Contains(mismatch, c) {
			cls = c
			break
		}
	}
	b := sc.Backend
	if strings.HasPrefix(b, "fscache") {
		b = "fscache*"
	}
	return fmt.Sprintf("%s: %s: %s", b, strings.TrimSpace(what), cls)
}

// c14Residue: other keys are stored, a child process dies inside Set(key) at operation #at, a fresh instance is
// compared with the map. Returns "", a mismatch, or "skip" when the child survived (no such operation).
func c14Residue(backend, key string, at int) string {
	in, err := c14Open(backend)
	if err != nil {
		return "open failed: " + err.Error()
	}
	defer in.close()
	vals := c14Values("quick")
	other := key + "-sibling"
	model := map[string][]byte{}
	keys := []string{key, other, "a"}
	for _, op := range []c14Op{{"set", 0, 0}, {"set", 1, 1}, {"set", 2, 0}} {
		if m := c14Apply(in, model, keys, vals, op); m != "" {
			return m
		}
	}
	if msg := c15Child(c15ChildSpec{Mode: "set", Dir: in.dir, VLen: 4097, Enc: backend == "fscache-enc", At: at, Key: key}); msg != "" {
		if strings.Contains(msg, "survived") {
			return "skip"
		}
		return "harness: child: " + msg
	}
	if err := in.reopen(); err != nil {
		return "reopen after the killed Set failed: " + err.Error()
	}
	if got, err := in.conn.Get(key); err == nil && bytes.Equal(got, bytes.Repeat([]byte("N"), 4097)) {
		model[key] = got // the new value made it
	} else if err != nil && backend == "fscache-enc" && !errors.Is(err, driver.ErrNotExist) {
		return "" // an undecryptable residue is rejected (C17); nothing more to compare for this key
	}
	return c14Compare(in, model, keys)
}

// c14Sizes: a value of n pseudo-random bytes, then a shorter one, read back exactly.
func c14Sizes(backend string, n int) string {
	in, err := c14Open(backend)
	if err != nil {
		return "open failed: " + err.Error()
	}
	defer in.close()
	val := make([]byte, n)
	for i := range val {
		val[i] = byte(i*131 + i>>8)
	}
	for _, k := range []string{"k", c15LongKey} {
		for _, v := range [][]byte{val, val[:n/2+1], val} {
			if err := in.conn.Set(k, append([]byte(nil), v...)); err != nil {
				return fmt.Sprintf("Set failed: %d bytes: %v", len(v), err)
			}
			got, err := in.conn.Get(k)
			if err != nil {
				return fmt.Sprintf("Get failed after Set: %d bytes: %v", len(v), err)
			}
			if !bytes.Equal(got, v) {
				return fmt.Sprintf("Get returns other bytes than Set stored: %d bytes stored, %d returned, first difference at %d", len(v), len(got), firstDiff(got, v))
			}
		}
	}
	return ""
}

func replayC14(t *testing.T, v *mc.Violation) bool {
	var d struct {
		Scenario c14Scenario `json:"scenario"`
		Path     []c14Op     `json:"path"`
		Size     *struct {
			Backend string `json:"backend"`
			N       int    `json:"n"`
		} `json:"size"`
		Residue *struct {
			Backend string `json:"backend"`
			Key     string `json:"key"`
			At      int    `json:"at"`
		} `json:"residue"`
	}
	for _, p := range v.Trace {
		if p.Label == "replay" {
			_ = json.Unmarshal([]byte(p.Desc), &d)
		}
	}
	if d.Size != nil {
		m := c14Sizes(d.Size.Backend, d.Size.N)
		fmt.Printf("  | backend %s value of %d bytes -> %s\n", d.Size.Backend, d.Size.N, m)
		return m != ""
	}
	if d.Residue != nil {
		m := c14Residue(d.Residue.Backend, d.Residue.Key, d.Residue.At)
		fmt.Printf("  | backend %s key %s writer killed at operation #%d\n  | -> %s\n", d.Residue.Backend, keyName(d.Residue.Key), d.Residue.At, m)
		return m != "" && m != "skip"
	}
	m, _, _ := c14Run(d.Scenario, d.Path, "quick")
	fmt.Printf("  | backend %s keys %v path %v\n  | -> %s\n", d.Scenario.Backend, c14KeyNames(d.Scenario), d.Path, m)
	return m != ""
}
