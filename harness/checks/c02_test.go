package checks

import (
	"fmt"
	"net/http"
	"strings"

	"verifharness/mc"
	"verifharness/world"
)

// C02 — responses that require validation are never reused unvalidated.
func init() { register(&Check{ID: "C02", Run: runC02, ShardDepth: 3}) }

var c02ReqDirs = []string{"", "no-cache", "max-age=0", "max-age=5", "max-stale", "max-stale=100", "min-fresh=5", "only-if-cached", "no-cache, only-if-cached", "max-age=5, only-if-cached"}

const (
	c02ETag          = `"etag-v1"`
	c02ClientCurrent = `"client-current"`
)

func runC02(x *mc.X) {
	noCache := mc.Pick(x, "stored.no-cache", []string{"", "no-cache", `no-cache="Set-Cookie, X-Secret"`, `no-cache="set-cookie,X-SECRET"`,
		`no-cache, no-cache="X-Secret"`, `no-cache="Set-Cookie", no-cache="X-Secret"`})
	mustReval := x.Choose("stored.must-revalidate", 2) == 1
	maxAge := mc.Pick(x, "stored.max-age", []string{"10", "0"})
	swr := x.Choose("stored.swr", 2) == 1
	sie := x.Choose("stored.sie", 2) == 1
	immutable := x.Choose("stored.immutable", 2) == 1
	validators := mc.Pick(x, "stored.validators", []string{"etag", "lm", "both", "none"})
	elapsed := mc.Pick(x, "elapsed", []int64{2, 10, 20})
	reqDir := mc.Pick(x, "req.directive", c02ReqDirs)
	answerKind := mc.Pick(x, "origin.answer", []string{"304", "304+fields", "200", "500", "503", "error", "304+no-cache", "200-same-etag", "304+no-cache on a second line"})
	// the client's own preconditions: an entity-tag the origin does not have, one that the origin considers current
	// (a copy the client holds, which says nothing about the copy this cache holds), an old date
	clientCond := mc.Pick(x, "client.preconditions", []string{"", "if-none-match other", "if-none-match current", "if-modified-since old"})

	w := world.New(world.Opt{})
	defer w.Close()
	if x.Tier() == "thorough" { // every second exchange through a second transport over the same store
		w.Alternate = mc.Pick(x, "transports", []string{"one", "two"}) == "two"
	}
	lm := httpDate(w.Epoch.Add(-secs(100000)))
	ccv := cc("max-age="+maxAge, noCache, ifs(mustReval, "must-revalidate"), ifs(swr, "stale-while-revalidate=100"), ifs(sie, "stale-if-error=100"), ifs(immutable, "immutable"))
	h := H("Cache-Control", ccv, "Set-Cookie", "sid=secret1", "X-Secret", "secret2", "X-Plain", "p")
	hasETag := validators == "etag" || validators == "both"
	hasLM := validators == "lm" || validators == "both"
	if hasETag {
		h = append(h, [2]string{"ETag", c02ETag})
	}
	if hasLM {
		h = append(h, [2]string{"Last-Modified", lm})
	}
	answer(w, RS{Status: 200, H: h})
	o1 := get(w, U, "X-Client", "c1")
	logObs(x, fmt.Sprintf("GET (origin: 200 %v)", h), o1)
	if o1.Tok == "" || !strings.Contains(w.Conn.Snapshot(), o1.Tok) {
		x.Failf("harness: prologue did not store", "prologue response not stored: %s", o1)
		return
	}
	world.Advance(secs(elapsed))

	// origin behaviour for the second exchange: 304 only to a conditional request
	answerFn(w, func(o *world.Origin, c *world.Call) (*http.Response, error) {
		// a 304 is an answer to the preconditions actually sent: If-None-Match takes precedence over If-Modified-Since (RFC 9110 §13.2.2)
		cond := false
		if inm := c.Header.Values("If-None-Match"); len(inm) > 0 {
			for _, line := range inm {
				for _, m := range strings.Split(line, ",") {
					if m = strings.TrimSpace(m); (hasETag && m == c02ETag) || m == c02ClientCurrent {
						cond = true
					}
				}
			}
		} else if ims := c.Header.Get("If-Modified-Since"); ims != "" {
			cond = hasLM && ims == lm
		}
		switch answerKind {
		case "304", "304+fields", "304+no-cache", "304+no-cache on a second line":
			if !cond {
				return o.Respond(c, RS{Status: 200, H: H("Cache-Control", "max-age=10", "ETag", `"etag-v2"`)}), nil
			}
			hh := H("ETag", c02ETag)
			if answerKind == "304+fields" {
				hh = append(hh, [2]string{"X-New", "n"}, [2]string{"Cache-Control", "max-age=10"})
			}
			if answerKind == "304+no-cache" {
				hh = append(hh, [2]string{"Cache-Control", "max-age=1000, no-cache"})
			}
			if answerKind == "304+no-cache on a second line" { // two field lines are one list (RFC 9110 §5.3)
				hh = append(hh, [2]string{"Cache-Control", "max-age=1000"}, [2]string{"Cache-Control", "no-cache"})
			}
			return o.Respond(c, RS{Status: 304, NoTok: true, H: hh}), nil
		case "200":
			return o.Respond(c, RS{Status: 200, H: H("Cache-Control", "max-age=10", "ETag", `"etag-v2"`)}), nil
		case "200-same-etag": // a full reply that repeats the stored entity-tag (weak tags allow other bytes): it is the origin's answer all the same
			return o.Respond(c, RS{Status: 200, H: H("Cache-Control", "max-age=10", "ETag", c02ETag)}), nil
		case "500":
			return o.Respond(c, RS{Status: 500}), nil
		case "503":
			return o.Respond(c, RS{Status: 503}), nil
		}
		return nil, errOrigin
	})
	req := world.Req("GET", U, "X-Client", "c2", "Accept", "text/x-verif")
	if reqDir != "" {
		req.Header.Set("Cache-Control", reqDir)
	}
	clientINM, clientIMS := "", ""
	switch clientCond {
	case "if-none-match other":
		clientINM = `"client-other"`
	case "if-none-match current":
		clientINM = c02ClientCurrent
	case "if-modified-since old":
		clientIMS = httpDate(w.Epoch.Add(-secs(200000)))
	}
	if clientINM != "" {
		req.Header.Set("If-None-Match", clientINM)
	}
	if clientIMS != "" {
		req.Header.Set("If-Modified-Since", clientIMS)
	}
	o2 := w.Do(req)
	logObs(x, fmt.Sprintf("GET after %ds Cache-Control=%q (origin would answer %s)", elapsed, reqDir, answerKind), o2)
	for _, c := range o2.BgCalls {
		x.Logf("    background origin: %s", c)
	}

	var life int64 = 10
	if maxAge == "0" {
		life = 0
	}
	age := elapsed
	stale := age >= life
	reqNoCache := strings.Contains(reqDir, "no-cache")
	oic := strings.Contains(reqDir, "only-if-cached")
	reqMaxAgeExceeded := (strings.Contains(reqDir, "max-age=0") && age > 0) || (strings.Contains(reqDir, "max-age=5") && age > 5)
	unqualified := noCache == "no-cache" || strings.HasPrefix(noCache, "no-cache, ") // (also when a qualified form follows it)
	blocker := unqualified || (stale && mustReval) || reqNoCache
	needs := blocker || reqMaxAgeExceeded
	x.State(ccv, validators, fmt.Sprint(stale), reqDir, answerKind, clientCond, obsClass(o2), fmt.Sprint(o2.Tok == o1.Tok))
	x.Note(fmt.Sprintf("needs=%v/%s", needs, obsClass(o2)))
	if o2.Panic != nil {
		return // C10
	}
	if o2.ReqChanged != "" {
		x.Failf("caller's request modified", "%s", o2.ReqChanged)
	}

	// every upstream request is the client's request plus the stored validators
	for _, c := range append(append([]*world.Call{}, o2.Calls...), o2.BgCalls...) {
		if c.Method != "GET" || c.URL != U || c.Header.Get("X-Client") != "c2" || c.Header.Get("Accept") != "text/x-verif" || c.Header.Get("Cache-Control") != reqDir {
			x.Failf("upstream request lost client fields", "upstream request differs from the client's: %s %s %v", c.Method, c.URL, c.Header)
		}
		inm, ims := c.Header.Get("If-None-Match"), c.Header.Get("If-Modified-Since")
		// a stored validator replaces the client's precondition of the same kind; where nothing is stored for a kind the client's own stays
		wantINM, wantIMS := clientINM, clientIMS
		if hasETag {
			wantINM = c02ETag
		}
		if hasLM {
			wantIMS = lm
		}
		if inm != wantINM || ims != wantIMS {
			x.Failf(fmt.Sprintf("validation request validators wrong (stored %s, client %q)", validators, clientCond), "If-None-Match=%q (want %q) If-Modified-Since=%q (want %q)", inm, wantINM, ims, wantIMS)
		}
	}

	servedStored := o2.Err == nil && o2.Tok != "" && o2.Tok == o1.Tok
	validated304 := len(o2.Calls) == 1 && o2.Calls[0].RespCode == 304 && o2.Calls[0].Err == nil
	if validated304 && !hasETag && !hasLM {
		validated304 = false // nothing stored to validate with: that 304 answers the client's own precondition, not the stored response
	}
	if clientCond != "" && o2.Err == nil && o2.Status == 304 && len(o2.Calls) == 1 && o2.Calls[0].RespCode == 304 && !hasETag && !hasLM {
		return // the origin's 304 to the client's own precondition, passed on
	}
	if strings.HasPrefix(answerKind, "304+no-cache") && validated304 && o2.Err == nil && o2.Tok == o1.Tok {
		// the 304 made the stored response "no-cache": a further plain request must be validated again
		world.Advance(secs(1))
		o3 := w.Do(world.Req("GET", U, "X-Client", "c2", "Accept", "text/x-verif"))
		logObs(x, "plain GET 1 s after a 304 that carried no-cache", o3)
		x.Nontrivial("directive delivered by a 304/" + obsClass(o3))
		if o3.Err == nil && o3.Panic == nil && o3.Tok == o1.Tok && len(o3.Calls) == 0 {
			x.Failf("no-cache delivered by a 304 is not honoured afterwards", "the validation reply replaced Cache-Control by %q, yet the next request was served without validation: %s", "max-age=1000, no-cache", o3)
		}
	}
	if servedStored && !validated304 && strings.HasPrefix(noCache, `no-cache="`) {
		x.Nontrivial("qualified-no-cache/" + o2.CacheStatus)
		if o2.Header.Get("Set-Cookie") != "" || o2.Header.Get("X-Secret") != "" {
			x.Failf("qualified no-cache fields replayed without validation ("+o2.CacheStatus+")", "response served from the store without validation carries Set-Cookie=%q X-Secret=%q", o2.Header.Get("Set-Cookie"), o2.Header.Get("X-Secret"))
		}
		if o2.Header.Get("X-Plain") != "p" {
			x.Failf("qualified no-cache stripped an unnamed field", "X-Plain=%q", o2.Header.Get("X-Plain"))
		}
	}
	if !needs {
		return
	}
	why := strings.Join(nonEmpty(ifs(unqualified, "stored-no-cache"+ifs(noCache != "no-cache", " (repeated)")), ifs(stale && mustReval, "stale+must-revalidate"), ifs(reqNoCache, "req-no-cache"), ifs(reqMaxAgeExceeded, "req-max-age-exceeded")), "+")
	x.Nontrivial(why + "/" + answerKind + "/" + ifs(oic, "oic"))
	x.Sample(map[string]any{"stored_cache_control": ccv, "validators": validators, "elapsed_s": elapsed, "request_cache_control": reqDir, "origin_answer": answerKind, "needs_validation_because": why, "observed": o2.String()})
	ctx := fmt.Sprintf("why=%s swr=%v sie=%v imm=%v oic=%v", why, swr, sie, immutable, oic)
	if servedStored {
		originFailed := len(o2.Calls) == 1 && (o2.Calls[0].Err != nil || o2.Calls[0].RespCode >= 500)
		if !validated304 && !blocker && sie && originFailed {
			return // request max-age exceeded + stale-if-error + failing origin: contested, C13 owns it
		}
		if !validated304 {
			x.Failf("served unvalidated: "+ctx+" status="+o2.CacheStatus, "stored response returned without a 304 from the origin in this exchange (%d foreground origin calls); %s", len(o2.Calls), o2)
		}
		return
	}
	// not the stored response: must be the origin's own answer of this exchange, its failure, or (only-if-cached) a 504
	if oic && o2.Err == nil && o2.Status == 504 && o2.Tok == "" && len(o2.Calls) == 0 {
		return
	}
	if len(o2.Calls) != 1 {
		x.Failf("no single origin exchange: "+ctx, "expected exactly one foreground origin call, saw %d; %s", len(o2.Calls), o2)
		return
	}
	c := o2.Calls[0]
	if c.Err != nil {
		if o2.Err == nil {
			if !blocker && sie {
				return // request max-age exceeded + stale-if-error + failing origin: contested, C13 owns it
			}
			x.Failf("origin failure masked: "+ctx, "origin call failed but the client got %s", o2)
		}
		return
	}
	if o2.Err != nil {
		x.Failf("error without origin failure: "+ctx, "origin answered %d but the client got error %v", c.RespCode, o2.Err)
		return
	}
	if o2.Status != c.RespCode || (c.RespTok != "" && o2.Tok != c.RespTok) {
		x.Failf("not the origin's answer: "+ctx, "origin answered %d %s, client got %s", c.RespCode, c.RespTok, o2)
	}
}

func nonEmpty(ss ...string) []string {
	var out []string
	for _, s := range ss {
		if s != "" {
			out = append(out, s)
		}
	}
	return out
}
