package checks

import (
	"bytes"
	"context"
	"fmt"
	"net/http"
	"strings"

	"verifharness/mc"
	"verifharness/world"
)

// C07 — successful unsafe requests invalidate what is stored for their target.
func init() { register(&Check{ID: "C07", Run: runC07, ShardDepth: 3}) }

var (
	c07Methods = []string{"POST", "PUT", "DELETE", "PATCH", "PROPPATCH", "MKCOL", "COPY", "MOVE", "LOCK", "UNLOCK", "FOO", "post", "M-SEARCH",
		"GET", "HEAD", "OPTIONS", "TRACE", "PROPFIND", "REPORT", "SEARCH", "QUERY"}
	// methods registered as safe by IANA: nothing is demanded for them
	c07Safe     = map[string]bool{"GET": true, "HEAD": true, "OPTIONS": true, "TRACE": true, "PROPFIND": true, "REPORT": true, "SEARCH": true, "QUERY": true, "PRI": true}
	c07Statuses = []int{200, 201, 204, 301, 303, 304, 400, 404, 500}
	c07Targets  = []string{"http://example.com/a/r", "http://EXAMPLE.com/a/r", "http://example.com:80/a/r", "http://example.com/a/./b/../r", "http://example.com/a/%72"}
	c07Locs     = []string{"", "sib", "../a/sib", "/a/sib", "http://example.com/a/sib", "http://EXAMPLE.COM:80/a/sib", "http://other.example/a/sib", "http://example.com:8080/a/sib", "https://example.com/a/sib", "http://exa mple.com/%zz"}
)

const (
	c07T     = "http://example.com/a/r"
	c07Sib   = "http://example.com/a/sib"
	c07Host  = "http://other.example/a/sib"
	c07Port  = "http://example.com:8080/a/sib"
	c07HTTPS = "https://example.com/a/sib"
)

func runC07(x *mc.X) {
	if m := mc.Pick(x, "mode", []string{"product", "origin on a high port", "field value with commas", "caller's context ends as the reply arrives", "unsafe request completes while the target is being validated", "site root with a query, path left empty"}); m != "product" {
		if m == "unsafe request completes while the target is being validated" {
			runC07Overlap(x)
			return
		}
		runC07Special(x, m)
		return
	}
	method := mc.Pick(x, "method", c07Methods)
	status := mc.Pick(x, "status", c07Statuses)
	target := mc.Pick(x, "target-spelling", c07Targets)
	locField := mc.Pick(x, "field", []string{"Location", "Content-Location", "both", "Location=cross-origin+Content-Location", "Content-Location=cross-origin+Location", "Location+no-store"})
	loc := mc.Pick(x, "field-value", c07Locs)
	if loc == "" && locField != "Location" {
		x.Skip()
	}
	if strings.Contains(locField, "cross-origin") && !map[string]bool{"sib": true, "/a/sib": true, "http://EXAMPLE.COM:80/a/sib": true}[loc] {
		x.Skip() // the mixed forms pair a cross-origin value in one field with a same-origin value in the other
	}
	nVar := mc.Pick(x, "target-variants", []int{0, 1, 3})
	rounds := mc.Pick(x, "rounds", []int{1, 2})
	// the store is not in mint condition: one variant's entry is gone (evicted by an external clean-up), or one Delete fails
	damage := mc.Pick(x, "store-damage", []string{"none", "first variant's entry evicted", "second variant's entry evicted", "first delete fails", "second delete fails"})
	if damage != "none" && !(nVar == 3 && rounds == 1 && (x.Tier() == "thorough" || (status == 200 && (method == "POST" || method == "DELETE" || method == "FOO")))) {
		x.Skip()
	}

	w := world.New(world.Opt{})
	defer w.Close()
	// "two": every second exchange goes through a second transport over the same store (nothing a transport
	// remembers outside the store may matter)
	w.Alternate = mc.Pick(x, "transports", []string{"one", "two"}) == "two"
	type ent = c07Ent
	var ents []*ent
	store := func(url string, vary string, hdr ...string) {
		h := H("Cache-Control", "max-age=100000")
		h = hdrIf(h, "Vary", vary)
		answer(w, RS{Status: 200, H: h})
		o := get(w, url, hdr...)
		logObs(x, "prologue GET "+url+" "+strings.Join(hdr, "="), o)
		ents = append(ents, &ent{url, hdr, o.Tok})
	}
	switch nVar {
	case 1:
		store(c07T, "")
	case 3:
		for _, a := range []string{"1", "2", "3"} {
			store(c07T, "X-A", "X-A", a)
		}
	}
	for _, u := range []string{c07Sib, c07Host, c07Port, c07HTTPS} {
		store(u, "")
	}
	unsafe := !c07Safe[method]
	success := status >= 200 && status < 400
	if rounds == 2 && !(unsafe && success && nVar > 0) {
		x.Skip() // a second round only where the first one must invalidate something
	}
	for round := 1; round <= rounds; round++ {
		if round == 2 {
			// store everything again, then repeat the unsafe request
			ents = nil
			switch nVar {
			case 1:
				store(c07T, "")
			case 3:
				for _, a := range []string{"1", "2", "3"} {
					store(c07T, "X-A", "X-A", a)
				}
			}
			for _, u := range []string{c07Sib, c07Host, c07Port, c07HTTPS} {
				store(u, "")
			}
		}
		c07Round(x, w, round, method, status, target, locField, loc, nVar, &ents, damage)
		if x.Failed() {
			return
		}
	}
}

type c07Ent struct {
	url string
	hdr []string
	tok string
}

func c07Round(x *mc.X, w *world.W, round int, method string, status int, target, locField, loc string, nVar int, entsp *[]*c07Ent, damage string) {
	ents := *entsp
	world.Advance(secs(5))
	var undeletable []byte // value under the key whose Delete was made to fail
	switch damage {
	case "first variant's entry evicted", "second variant's entry evicted":
		e := ents[0]
		if strings.HasPrefix(damage, "second") {
			e = ents[1]
		}
		for _, k := range w.Conn.Keys() {
			if v, _ := w.Conn.Peek(k); len(v) > 0 && v[0] != '[' && bytes.Contains(v, []byte(e.tok)) {
				_ = w.Conn.Delete(k)
			}
		}
	case "first delete fails", "second delete fails":
		n, want := 0, 1
		if strings.HasPrefix(damage, "second") {
			want = 2
		}
		w.Conn.Fault = func(op *world.Op) (bool, []byte, error) {
			if op.Kind == "del" {
				if n++; n == want {
					undeletable, _ = w.Conn.PeekNoLock(op.Key)
					return true, nil, world.ErrInjected
				}
			}
			return false, nil, nil
		}
		defer func() { w.Conn.Fault = nil }()
	}

	var h [][2]string
	if loc != "" {
		switch locField {
		case "Location=cross-origin+Content-Location":
			h = append(h, [2]string{"Location", "http://elsewhere.example/x"}, [2]string{"Content-Location", loc})
		case "Content-Location=cross-origin+Location":
			h = append(h, [2]string{"Content-Location", "http://elsewhere.example/x"}, [2]string{"Location", loc})
		}
		if locField == "Location" || locField == "both" || locField == "Location+no-store" {
			h = append(h, [2]string{"Location", loc})
		}
		if locField == "Content-Location" || locField == "both" {
			h = append(h, [2]string{"Content-Location", loc})
		}
	}
	if locField == "Location+no-store" { // that the reply itself must not be stored does not make what it invalidates any fresher
		h = append(h, [2]string{"Cache-Control", "no-store"})
	}
	answer(w, RS{Status: status, H: h})
	req, err := http.NewRequest(method, target, nil)
	if err != nil {
		x.Skip()
	}
	ou := w.Do(req)
	w.Conn.Fault = nil
	logObs(x, fmt.Sprintf("%s %s (origin: %d %v)%s", method, target, status, h, ifs(damage != "none", " store damage: "+damage)), ou)
	if ou.Panic != nil {
		return
	}
	unsafe := !c07Safe[method]
	success := status >= 200 && status < 400
	locSameOrigin := map[string]bool{"sib": true, "../a/sib": true, "/a/sib": true, "http://example.com/a/sib": true, "http://EXAMPLE.COM:80/a/sib": true}[loc]
	world.Advance(secs(1))
	answer(w, RS{Status: 200, H: H("Cache-Control", "no-store")})
	cls := fmt.Sprintf("%s/%dxx/variants=%d/loc=%s", map[bool]string{true: "unsafe", false: "safe"}[unsafe], status/100, nVar, map[bool]string{true: "same-origin", false: "other"}[locSameOrigin])
	x.Nontrivial(cls)
	for _, e := range ents {
		o := get(w, e.url, e.hdr...)
		logObs(x, "follow-up GET "+e.url+" "+strings.Join(e.hdr, "="), o)
		if o.Panic != nil || o.Err != nil {
			continue
		}
		servedOld := o.Tok == e.tok && len(o.Calls) == 0
		x.State(cls, e.url, fmt.Sprint(servedOld))
		switch {
		case e.url == c07T || (e.url == c07Sib && locSameOrigin):
			if unsafe && success && servedOld && undeletable != nil && bytes.Contains(undeletable, []byte(e.tok)) {
				continue // the store refused to delete exactly this entry
			}
			if unsafe && success && servedOld {
				what := "target"
				if e.url == c07Sib {
					what = "same-origin " + locField + " URI"
				}
				x.Failf(fmt.Sprintf("not invalidated: %s method=%s%s%s", what, methodClass(method), ifs(round > 1, " (second invalidation of the same target)"), ifs(damage != "none", " store damage: "+damage)), "after %s %s -> %d %v, GET %s %v is still answered from the store without validation: %s", method, target, status, h, e.url, e.hdr, o)
			}
		case e.url == c07Host || e.url == c07Port || e.url == c07HTTPS:
			if !servedOld {
				x.Failf("cross-origin entry evicted: "+e.url, "after %s %s -> %d %v, the stored response of another origin (%s) is no longer served: %s", method, target, status, h, e.url, o)
			}
		}
	}
	x.Sample(map[string]any{"method": method, "target": target, "status": status, "fields": h, "stored_variants_of_target": nVar})
}

func methodClass(m string) string {
	switch m {
	case "POST", "PUT", "DELETE", "PATCH":
		return m
	}
	return "other(" + m + ")"
}

// runC07Special: three situations outside the product — an origin whose port is above 32767, a Location / Content-Location
// value that contains commas (these fields hold one URI, not a list), and a caller whose context ends in the very moment
// the origin's 2xx arrives (the response is still handed to the caller, so the request succeeded).
func runC07Special(x *mc.X, mode string) {
	method := mc.Pick(x, "method", []string{"POST", "DELETE", "PUT", "FOO"})
	field := mc.Pick(x, "field", []string{"Location", "Content-Location"})
	base := "http://example.com"
	if mode == "origin on a high port" {
		base = mc.Pick(x, "origin", []string{"http://example.com:49152", "http://example.com:65535", "http://example.com:32768", "https://example.com:40443"})
	}
	target, other := base+"/a/r", base+"/a/sib"
	locs := []string{other, "/a/sib", "sib"}
	if mode == "field value with commas" {
		other = base + "/reports/2024,Q3?ids=1,2"
		locs = []string{other, "/reports/2024,Q3?ids=1,2"}
	}
	reqURL := target
	if mode == "site root with a query, path left empty" { // "http://example.com?q=1" is "http://example.com/?q=1" (RFC 9110 §4.2.3)
		target, other = base+"/?q=1", base+"/?q=2"
		reqURL = mc.Pick(x, "request-uri", []string{base + "?q=1", target})
		locs = []string{base + "?q=2", "?q=2", "/?q=2", other}
	}
	loc := mc.Pick(x, "field-value", locs)
	w := world.New(world.Opt{})
	defer w.Close()
	answer(w, RS{Status: 200, H: H("Cache-Control", "max-age=100000")})
	o1, o2 := get(w, target), get(w, other)
	logObs(x, "GET "+target, o1)
	logObs(x, "GET "+other, o2)
	world.Advance(secs(5))
	ctx, cancel := context.WithCancel(context.Background())
	defer cancel()
	answerFn(w, func(o *world.Origin, c *world.Call) (*http.Response, error) {
		resp := o.Respond(c, RS{Status: 200, H: H(field, loc), Body: []byte{}})
		if mode == "caller's context ends as the reply arrives" {
			cancel()
		}
		return resp, nil
	})
	req, _ := http.NewRequest(method, reqURL, nil)
	ou := w.Do(req.WithContext(ctx))
	logObs(x, fmt.Sprintf("%s %s (origin: 200 %s: %s)", method, reqURL, field, loc), ou)
	x.Nontrivial(mode + "/" + methodClass(method))
	x.State(mode, method, field, loc, obsClass(ou))
	if ou.Panic != nil || ou.Err != nil || ou.Status != 200 {
		return // the caller did not receive a 2xx: nothing is demanded
	}
	world.Advance(secs(1))
	answer(w, RS{Status: 200, H: H("Cache-Control", "no-store")})
	for _, e := range []struct {
		url, tok, what string
	}{{target, o1.Tok, "target"}, {other, o2.Tok, "same-origin " + field + " URI"}} {
		o := get(w, e.url)
		logObs(x, "follow-up GET "+e.url, o)
		if o.Err == nil && o.Panic == nil && o.Tok == e.tok && len(o.Calls) == 0 {
			x.Failf(fmt.Sprintf("not invalidated: %s method=%s (%s)", e.what, methodClass(method), mode), "after %s %s -> 200 %s: %s, GET %s is still answered from the store without validation: %s", method, reqURL, field, loc, e.url, o)
		}
	}
}

// runC07Overlap: the stored response is being validated (in the foreground, or in the background under
// stale-while-revalidate) when an unsafe request for the same URI succeeds; the validation's answer arrives afterwards.
// What was stored before the unsafe request must not come back.
func runC07Overlap(x *mc.X) {
	method := mc.Pick(x, "method", []string{"POST", "DELETE", "FOO"})
	path := mc.Pick(x, "validation", []string{"foreground", "background (stale-while-revalidate)"})
	answer304 := mc.Pick(x, "validation-answer", []string{"304", "304+max-age=1000"})
	w := world.New(world.Opt{})
	defer w.Close()
	ccv := "max-age=5"
	if path != "foreground" {
		ccv = "max-age=5, stale-while-revalidate=1000"
	}
	answer(w, RS{Status: 200, H: H("Cache-Control", ccv, "ETag", `"v1"`)})
	o1 := get(w, c07T)
	logObs(x, "GET (stored)", o1)
	world.Advance(secs(10))
	var ou *world.Obs
	answerFn(w, func(o *world.Origin, c *world.Call) (*http.Response, error) {
		if c.Method != "GET" {
			return o.Respond(c, RS{Status: 200, Body: []byte{}}), nil
		}
		if c.Header.Get("If-None-Match") == "" {
			return o.Respond(c, RS{Status: 200, H: H("Cache-Control", "no-store")}), nil
		}
		if path == "foreground" && ou == nil {
			// the unsafe request runs to completion while this validation is at the origin
			req, _ := http.NewRequest(method, c07T, nil)
			resp, err := w.RT.RoundTrip(req)
			ou = &world.Obs{Err: err}
			if err == nil {
				ou.Status = resp.StatusCode
				_ = resp.Body.Close()
			}
		} else if path != "foreground" {
			_ = world.Sleep(c.Req, secs(2))
		}
		h := H("ETag", `"v1"`)
		if answer304 != "304" {
			h = append(h, [2]string{"Cache-Control", "max-age=1000"})
		}
		return o.Respond(c, RS{Status: 304, NoTok: true, H: h}), nil
	})
	o2 := get(w, c07T)
	logObs(x, "GET 5 s stale (validation "+path+")", o2)
	if path != "foreground" {
		req, _ := http.NewRequest(method, c07T, nil)
		ou = w.Do(req)
		logObs(x, method+" while the background validation is at the origin", ou)
	}
	world.Advance(secs(5)) // the 304 has arrived by now
	x.Nontrivial("overlap/" + path + "/" + methodClass(method))
	if ou == nil || ou.Err != nil || ou.Status != 200 {
		x.Note("the unsafe request did not run as scripted")
		return
	}
	answerFn(w, func(o *world.Origin, c *world.Call) (*http.Response, error) {
		return o.Respond(c, RS{Status: 200, H: H("Cache-Control", "no-store")}), nil
	})
	o3 := get(w, c07T)
	logObs(x, "GET afterwards", o3)
	x.State("overlap", path, method, answer304, obsClass(o3))
	if o3.Err == nil && o3.Panic == nil && o3.Tok == o1.Tok && len(o3.Calls) == 0 {
		x.Failf(fmt.Sprintf("not invalidated: the response stored before the unsafe request came back with the validation that was in flight (%s)", path), "%s %s succeeded while the stored response was being validated; afterwards GET is answered from the store without validation: %s", method, c07T, o3)
	}
}
