package checks

import (
	"bytes"
	"fmt"
	"io"
	"net/http"
	"strings"

	"verifharness/mc"
	"verifharness/world"
)

// C10 — the transport fails open: no panic, no hang, errors only from the origin.
func init() {
	register(&Check{ID: "C10", Run: runC10, ShardDepth: 1, LeaksMatter: true, PreReplay: c10PreReplay, Bound: func(tier string) int {
		if tier == "thorough" {
			return 2
		}
		return 1
	}})
}

type c10Step struct {
	adv    int64
	method string
	url    string
	hdr    []string
	origin string // what the origin answers by default: "200:<cache-control>", "cond304:<cc>", "503", "error", "slow:<cc>"
}

type c10Hist struct {
	name  string
	steps []c10Step
}

const c10Sib = "http://example.com/sib"

var c10Hists = []c10Hist{
	{"miss", []c10Step{{0, "GET", U, nil, "200:max-age=100"}}},
	{"hit", []c10Step{{0, "GET", U, nil, "200:max-age=100"}, {5, "GET", U, nil, "200:max-age=100"}}},
	{"validate-304", []c10Step{{0, "GET", U, nil, "200:max-age=5"}, {10, "GET", U, nil, "cond304:max-age=5"}, {1, "GET", U, nil, "200:max-age=5"}}},
	{"validate-200", []c10Step{{0, "GET", U, nil, "200:max-age=5"}, {10, "GET", U, nil, "200:max-age=5"}}},
	{"validate-503", []c10Step{{0, "GET", U, nil, "200:max-age=5"}, {10, "GET", U, nil, "503"}}},
	{"validate-error", []c10Step{{0, "GET", U, nil, "200:max-age=5"}, {10, "GET", U, nil, "error"}}},
	{"swr-304", []c10Step{{0, "GET", U, nil, "200:max-age=5, stale-while-revalidate=100"}, {10, "GET", U, nil, "cond304:max-age=5, stale-while-revalidate=100"}, {1, "GET", U, nil, "200:max-age=5"}}},
	{"swr-200", []c10Step{{0, "GET", U, nil, "200:max-age=5, stale-while-revalidate=100"}, {10, "GET", U, nil, "200:max-age=5, stale-while-revalidate=100"}, {1, "GET", U, nil, "200:max-age=5"}}},
	{"swr-error", []c10Step{{0, "GET", U, nil, "200:max-age=5, stale-while-revalidate=100"}, {10, "GET", U, nil, "error"}, {1, "GET", U, nil, "200:max-age=5"}}},
	{"swr-timeout", []c10Step{{0, "GET", U, nil, "200:max-age=5, stale-while-revalidate=100"}, {10, "GET", U, nil, "slow:max-age=5"}, {20, "GET", U, nil, "200:max-age=5"}}},
	{"unsafe-invalidation", []c10Step{{0, "GET", U, nil, "200:max-age=100"}, {0, "GET", c10Sib, nil, "200:max-age=100"}, {5, "POST", U, nil, "201loc"}, {1, "GET", U, nil, "200:max-age=100"}}},
	{"only-if-cached", []c10Step{{0, "GET", U, []string{"Cache-Control", "only-if-cached"}, "200:max-age=100"}, {0, "GET", U, nil, "200:max-age=100"}, {5, "GET", U, []string{"Cache-Control", "only-if-cached"}, "200:max-age=100"}}},
	{"variants", []c10Step{{0, "GET", U, []string{"X-A", "1"}, "vary200"}, {1, "GET", U, []string{"X-A", "2"}, "vary200"}, {1, "GET", U, []string{"X-A", "1"}, "vary200"}}},
	{"variants-nil-header", []c10Step{{0, "GET", U, []string{"X-A", "1"}, "vary200"}, {1, "GET", U, []string{"X-A", "\x00nil"}, "vary200"}, {1, "GET", U, []string{"X-A", "1"}, "vary200"}}},
	{"stale-if-error", []c10Step{{0, "GET", U, nil, "200:max-age=5, stale-if-error=100"}, {10, "GET", U, nil, "503"}}},
	// origins with odd, malformed or missing header fields (c10Odd): stored, reused or validated, and reused again
	{"odd-headers-0", c10OddSteps("0")}, {"odd-headers-1", c10OddSteps("1")}, {"odd-headers-2", c10OddSteps("2")}, {"odd-headers-3", c10OddSteps("3")},
	{"odd-headers-4", c10OddSteps("4")}, {"odd-headers-5", c10OddSteps("5")}, {"odd-headers-6", c10OddSteps("6")}, {"odd-headers-7", c10OddSteps("7")},
	{"request-without-header-map", []c10Step{{0, "GET", U, nil, "200:max-age=5"}, {10, "GET", U, []string{"\x00nilmap", ""}, "cond304:max-age=5"}, {1, "GET", U, []string{"\x00nilmap", ""}, "200:max-age=5"}}},
	{"unsafe-error-status", []c10Step{{0, "GET", U, nil, "200:max-age=100"}, {1, "POST", U, nil, "503"}, {1, "DELETE", U, nil, "404"}, {1, "GET", U, nil, "200:max-age=100"}}},
}

func c10OddSteps(k string) []c10Step {
	return []c10Step{{0, "GET", U, []string{"X-A", "1"}, "odd:" + k}, {1, "GET", U, []string{"X-A", "1"}, "odd:" + k}, {10, "GET", U, []string{"X-A", "2"}, "odd:" + k},
		{1, "GET", U, []string{"X-A", "1"}, "odd:" + k}}
}

// c10Odd: header sections that are unusual, malformed or incomplete; the transport may treat them as it likes, but it serves the client.
var c10Odd = map[string][][2]string{
	"0": H("Cache-Control", "max-age=5", "Vary", "*, X-A", "ETag", `"v1"`),
	"1": H("Cache-Control", ", ,max-age=5,,", "Vary", "X-A,, ,X-B,", "ETag", `"v1"`),
	"2": H("Cache-Control", "max-age=5", "Connection", ", ,close, X-Odd,", "X-Odd", "o", "ETag", `"v1"`),
	"3": H("Expires", "0", "Age", "-1", "Last-Modified", "garbage", "Date", "also garbage"),
	"4": H("Cache-Control", `max-age="5`, "ETag", "v1", "Vary", "X-A"),
	"5": H("Vary", "X-A", "Vary", "", "Vary", "x-a", "Cache-Control", "", "Cache-Control", "max-age=5", "ETag", `W/""`),
	"6": H("Cache-Control", "max-age=5, stale-while-revalidate=100", "Set-Cookie", "sid=1", "WWW-Authenticate", `Basic realm="r"`, "Authentication-Info", "x=1", "Last-Modified", "Sat, 01 Jan 2000 00:00:00 GMT"),
	"7": H("Cache-Control", `no-cache="`, "Cache-Control", `private=",", max-age=5, stale-if-error`, "Vary", "X-A, *, X-A"),
}

// hostile stored values: strict ones cannot be decoded by anything, lenient ones may still decode.
var c10StrictLiterals = []string{"", "null x", "[null", "{}", `"x"`, "[1]", `[{"id":5}]`, "\x00\x01\x02", strings.Repeat("[", 1<<16),
	"onlyonefield\n", "a\tb\n", "a\tb\tc\td\nHTTP/1.1 200 OK\r\n\r\n", "id\tt1\tt2\n", "id\t2000-01-01T00:00:00Z\t2000-01-01T00:00:00Z\nHTTP/1.1 99 x\r\n\r\n",
	"id\t2000-01-01T00:00:00Z\t2000-01-01T00:00:00Z\nNOTHTTP\r\n\r\n", "id\t2000-01-01T00:00:00Z\t2000-01-01T00:00:00Z\nHTTP/1.1 200 OK\r\nContent-Length: -5\r\n\r\nbody",
	"id\t2000-01-01T00:00:00Z\t2000-01-01T00:00:00Z\nHTTP/1.1 200 OK\r\nBad Header Line\r\n\r\n", "no newline at all"}

var c10LenientLiterals = []string{"null", "[null]", "[]", "[{}]", `[{"id":""}]`, `[{"id":"missing","vary":"","vary_resolved":null}]`, `[null,{"id":"x","vary":"*"}]`,
	`[{"id":"http://example.com/r#0","vary":"X-A","vary_resolved":{"X-A":"1"},"received_at":"not a time"}]`,
	"id\tnot-a-time\talso-not\nHTTP/1.1 200 OK\r\nContent-Length: 4\r\n\r\nbody",
	"id\t2000-01-01T00:00:00Z\t2000-01-01T00:00:00Z\nHTTP/1.1 200 OK\r\nContent-Length: 99999999999\r\nCache-Control: max-age=100\r\n\r\nshort",
	"id\t2000-01-01T00:00:00Z\t2000-01-01T00:00:00Z\nHTTP/1.1 200 OK\r\nTransfer-Encoding: chunked\r\nCache-Control: max-age=100\r\n\r\nzz\r\nbad chunk\r\n",
	"id\t2000-01-01T00:00:00Z\t2000-01-01T00:00:00Z\nHTTP/1.1 200 OK\r\nCache-Control: max-age=100\r\nDate: garbage\r\nAge: -3\r\nExpires: x\r\nVary: *\r\n\r\n",
	"id\t2000-01-01T00:00:00Z\t2000-01-01T00:00:00Z\nHTTP/1.1 304 Not Modified\r\nCache-Control: max-age=100\r\n\r\n",
	"id\t2000-01-01T00:00:00Z\t2000-01-01T00:00:00Z\nHTTP/1.1 200 OK\r\nCache-Control: max-age=100, stale-while-revalidate=100, no-cache=\"\r\n\r\n"}

type c10Fault struct {
	exchange int
	kind     string // get-error | get-notexist | get-strict | get-lenient | set-error | del-error | origin-*
	desc     string
	late     bool // the fault hit a store operation AFTER the origin had been called in that exchange (e.g. a re-read before a write-back)
}

func runC10(x *mc.X) {
	hi := x.Choose("history", len(c10Hists))
	hist := c10Hists[hi]
	x.Trace[len(x.Trace)-1].Desc = hist.name
	logger := mc.Pick(x, "logger", []string{"", "text", "json", "text-info"})

	var recorded []int // fault decisions of this run: the key under which the logging-off observations are kept
	obsA, faults := c10Run(x, hist, logger, nil, &recorded)
	if x.Failed() {
		return
	}
	cls := hist.name
	for _, f := range faults {
		cls += "/" + f.kind
	}
	x.Nontrivial(cls)
	x.State(cls, logger, strings.Join(obsA, ";"))
	x.Note(fmt.Sprintf("faults=%d", len(faults)))
	if len(faults) > 0 {
		x.Sample(map[string]any{"history": hist.name, "logger": logger, "faults": faults, "observations": obsA})
	}
	// Logging must not change behaviour: the same history and fault placement was executed with the
	// discard logger earlier in this shard's depth-first order (logger is the second choice, "" first;
	// shards partition by history only), in a bubble starting at the same epoch.
	key := hist.name + fmt.Sprint(recorded)
	vec := strings.Join(obsA, ";")
	if logger == "" {
		c10Base[key] = vec
	} else if base, ok := c10Base[key]; ok && base != vec {
		x.Failf("behaviour differs with logging enabled ("+logger+")", "history %s faults %v\n with logger: %v\n without:     %v", hist.name, faults, vec, base)
	}
}

var c10Base = map[string]string{}

// c10Run executes the history. Fault decisions come from the explorer (replay == nil) or from a recorded list.
func c10Run(x *mc.X, hist c10Hist, logger string, replay []int, record *[]int) (obs []string, faults []c10Fault) {
	w := world.New(world.Opt{Logger: logger})
	defer w.Close()
	exchange := 0
	originCalls := 0 // origin calls so far in the current exchange
	ri := 0
	decide := func(label string, opts []string) int {
		if replay != nil {
			if ri < len(replay) {
				ri++
				return replay[ri-1]
			}
			return 0
		}
		i := x.ChooseDev(label, len(opts))
		if i != 0 {
			x.Trace[len(x.Trace)-1].Desc = opts[i]
		}
		if record != nil {
			*record = append(*record, i)
		}
		return i
	}
	reduced := func() bool { return replay == nil && x.Devs() >= 1 }
	w.Conn.Fault = func(op *world.Op) (bool, []byte, error) {
		switch op.Kind {
		case "set":
			if decide("set "+short(op.Key), []string{"ok", "error"}) == 1 {
				faults = append(faults, c10Fault{exchange, "set-error", op.Key, originCalls > 0})
				return true, nil, world.ErrInjected
			}
		case "del":
			if decide("del "+short(op.Key), []string{"ok", "error"}) == 1 {
				faults = append(faults, c10Fault{exchange, "del-error", op.Key, originCalls > 0})
				return true, nil, world.ErrInjected
			}
		case "get":
			// The damage menu is computed lazily: n alternatives, the chosen one is materialised on demand.
			cur := op.Val
			isIndex := len(cur) > 0 && cur[0] == '['
			hdrEnd := bytes.Index(cur, []byte("\r\n\r\n"))
			step := 1
			if reduced() || (x.Tier() != "thorough" && len(cur) > 600) {
				step = 7
			}
			nStrict, nLenient := len(c10StrictLiterals), len(c10LenientLiterals)
			nTrunc, nSub, nSwap := 0, 0, 0
			var swapVal []byte
			if cur != nil {
				nTrunc = (len(cur) + step - 1) / step
				if !reduced() {
					nSub = nTrunc * 5
				}
				for _, k := range w.Conn.KeysNoLock() {
					if v, _ := w.Conn.PeekNoLock(k); len(v) > 0 && (v[0] == '[') != isIndex {
						swapVal, nSwap = v, 1
						break
					}
				}
			}
			n := 3 + nStrict + nLenient + nTrunc + nSub + nSwap
			materialise := func(i int) (kind string, val []byte) {
				i -= 3
				if i < nStrict {
					return "get-strict", []byte(c10StrictLiterals[i])
				}
				i -= nStrict
				if i < nLenient {
					return "get-lenient", []byte(c10LenientLiterals[i])
				}
				i -= nLenient
				if i < nTrunc {
					k := i * step
					kind = "get-lenient"
					if isIndex || hdrEnd < 0 || k < hdrEnd+4 {
						kind = "get-strict" // cut inside the JSON array / before the end of the header section
					} else if bytes.Contains(cur[:hdrEnd], []byte("\r\nContent-Length: ")) {
						kind = "get-strict" // cut inside a body whose length the entry itself announces: recognisably incomplete
					}
					return kind, cur[:k]
				}
				i -= nTrunc
				if i < nSub {
					off := (i / 5) * step
					b := []byte{0x00, 0x0A, 0x20, 0xFF, cur[off] ^ 1}[i%5]
					v := append([]byte(nil), cur...)
					v[off] = b
					return "get-lenient", v // (a substitution equal to the original byte is a no-op alternative)
				}
				return "get-strict", swapVal
			}
			var i int
			if replay != nil {
				i = decide("", nil)
			} else {
				i = x.ChooseDev("get "+short(op.Key), n)
				if record != nil {
					*record = append(*record, i)
				}
			}
			switch i {
			case 0:
			case 1:
				x.Trace[len(x.Trace)-1].Desc = "error"
				faults = append(faults, c10Fault{exchange, "get-error", op.Key, originCalls > 0})
				return true, nil, world.ErrInjected
			case 2:
				faults = append(faults, c10Fault{exchange, "get-notexist", op.Key, originCalls > 0})
				return true, nil, fmt.Errorf("injected: %w", errNotExist())
			default:
				kind, val := materialise(i)
				d := fmt.Sprintf("%s %dB %q", kind, len(val), clipB(val))
				if replay == nil {
					x.Trace[len(x.Trace)-1].Desc = d
				}
				faults = append(faults, c10Fault{exchange, kind, op.Key + " <- " + d, originCalls > 0})
				return true, val, nil
			}
		}
		return false, nil, nil
	}

	for si, st := range hist.steps {
		exchange = si
		originCalls = 0
		world.Advance(secs(st.adv))
		originFault := ""
		answerFn(w, func(o *world.Origin, c *world.Call) (*http.Response, error) {
			originCalls++
			of := []string{"ok", "transport-error", "503", "no-date", "invalid-date", "body-error@0", "body-error@mid", "nil-header-200", "nil-header-map"}
			i := decide(fmt.Sprintf("origin call %d", c.Seq), of)
			if i != 0 {
				originFault = of[i]
				faults = append(faults, c10Fault{si, "origin-" + of[i], c.URL, false})
			}
			kind, ccv, _ := strings.Cut(st.origin, ":")
			cond := c.Header.Get("If-None-Match") != "" || c.Header.Get("If-Modified-Since") != ""
			spec := RS{Status: 200, H: hdrIf(H("ETag", `"v1"`), "Cache-Control", ccv)}
			switch kind {
			case "cond304":
				if cond {
					spec = RS{Status: 304, NoTok: true, H: H("ETag", `"v1"`, "Cache-Control", ccv)}
				}
			case "503":
				spec = RS{Status: 503}
			case "404":
				spec = RS{Status: 404}
			case "odd":
				spec = RS{Status: 200, H: c10Odd[ccv], NoDate: ccv == "3"}
				if cond {
					spec = RS{Status: 304, NoTok: true, H: c10Odd[ccv], NoDate: ccv == "3"}
				}
			case "error":
				return nil, errOrigin
			case "slow":
				if err := world.Sleep(c.Req, secs(10)); err != nil {
					return nil, err
				}
			case "201loc":
				spec = RS{Status: 201, H: H("Location", c10Sib)}
			case "vary200":
				spec = RS{Status: 200, H: H("Cache-Control", "max-age=100", "Vary", "X-A", "ETag", `"v1"`)}
			}
			switch of[i] {
			case "transport-error":
				return nil, errOrigin
			case "503":
				spec = RS{Status: 503}
			case "no-date":
				spec.NoDate = true
			case "invalid-date":
				spec.RawDate = "Thu, 32 Foo 20xx"
			case "body-error@0":
				spec.BodyErr, spec.FailAt = io.ErrUnexpectedEOF, 0
			case "body-error@mid":
				spec.BodyErr, spec.FailAt = io.ErrUnexpectedEOF, 5
			}
			resp := o.Respond(c, spec)
			if of[i] == "nil-header-200" {
				resp.Header = http.Header{"X-Tok": resp.Header["X-Tok"]}
			}
			if of[i] == "nil-header-map" { // a hand-written upstream RoundTripper may leave the map nil (http.Client copes with that)
				resp.Header = nil
			}
			return resp, nil
		})
		nf := len(faults)
		req := world.Req(st.method, st.url, st.hdr...)
		if len(st.hdr) > 0 && st.hdr[0] == "\x00nilmap" {
			req.Header = nil // a hand-built &http.Request{Method, URL}: no header map at all
		}
		for k, v := range req.Header {
			if len(v) == 1 && v[0] == "\x00nil" {
				req.Header[k] = nil // net/http's documented way to suppress a header: the key is present without values
			}
		}
		o := w.Do(req)
		newFaults := faults[nf:]
		x.Transitions(1 + len(o.Ops) + len(o.Calls) + len(o.BgCalls))
		obs = append(obs, c10ObsVec(o))
		if replay != nil {
			continue // twin run: observations only
		}
		x.Logf("step %d: %s %s %v -> %s | faults in this exchange: %v", si, st.method, st.url, st.hdr, o, newFaults)
		what := fmt.Sprintf("history=%s step=%d", hist.name, si)
		fk := "-"
		if len(newFaults) > 0 {
			fk = newFaults[0].kind
		} else if len(faults) > 0 {
			fk = "after " + faults[0].kind
		}
		switch {
		case o.Panic != nil:
			x.Failf("panic: "+hist.name+" fault="+fk+" "+panicSite(o.PanicStack), "%s: RoundTrip panicked: %v\n%s", what, o.Panic, clipStr(o.PanicStack, 1800))
			return
		case o.Resp == nil && o.Err == nil:
			x.Failf("neither response nor error: "+hist.name+" fault="+fk, "%s", what)
			return
		case o.Resp != nil && o.Err != nil:
			x.Failf("both response and error: "+hist.name+" fault="+fk, "%s: %v", what, o.Err)
			return
		}
		if o.Err == nil && o.Status == http.StatusNotModified && len(o.Calls) > 0 && o.Calls[len(o.Calls)-1].RespCode == http.StatusNotModified {
			// (a 304 that the harness itself planted in the store as a damaged entry is not the transport's doing)
			x.Failf("the origin's 304 to the cache's own conditional request was handed to a client that sent none: "+hist.name+" fault="+fk, "%s: %s", what, o)
			return
		}
		if o.Err == nil && o.BodyErr != nil && len(faults) == 0 {
			x.Failf("the body of the returned response cannot be read although nothing failed: "+hist.name, "%s: reading the body failed with %v after %d bytes; %s", what, o.BodyErr, len(o.Body), o)
			return
		}
		originFailed := false
		for _, c := range o.Calls {
			if c.Err != nil {
				originFailed = true
			}
		}
		if o.Err != nil && !originFailed {
			x.Failf("error although no origin call failed: "+hist.name+" fault="+fk, "%s: RoundTrip returned %v; foreground origin calls: %v", what, o.Err, o.Calls)
			return
		}
		// store operation errors and undecodable values in this exchange: the origin serves the request
		strict := false
		for _, f := range newFaults {
			if (f.kind == "get-error" || f.kind == "get-strict") && !f.late {
				strict = true // (a read that fails after the origin was asked cannot turn the exchange into a miss any more)
			}
		}
		oic := len(st.hdr) == 2 && strings.Contains(st.hdr[1], "only-if-cached")
		if strict && st.method == "GET" && originFault == "" && len(o.BgCalls) == 0 {
			switch {
			case oic:
				if !(o.Err == nil && ((o.Status == 504 && len(o.Calls) == 0) || len(o.Calls) == 0)) {
					x.Failf("only-if-cached with an unusable store entry contacted the origin", "%s: %s", what, o)
				}
			case len(o.Calls) == 0:
				x.Failf("unusable store entry but the origin was not asked: "+hist.name+" fault="+fk, "%s: fault %v; observed %s", what, newFaults, o)
			default:
				c := o.Calls[len(o.Calls)-1]
				ok := (c.Err != nil && o.Err != nil) || (c.Err == nil && o.Err == nil && o.Status == c.RespCode && (c.RespTok == "" || o.HdrTok == c.RespTok))
				if !ok {
					x.Failf("unusable store entry: client did not receive the origin's answer: "+hist.name+" fault="+fk, "%s: fault %v; origin answered %v; client got %s", what, newFaults, c, o)
				}
			}
		}
	}
	if replay == nil {
		world.Advance(secs(60))
	}
	return obs, faults
}

func c10ObsVec(o *world.Obs) string {
	if o.Panic != nil {
		return "panic"
	}
	if o.Err != nil {
		return "err"
	}
	be := ""
	if o.BodyErr != nil {
		be = "bodyerr"
	}
	return fmt.Sprintf("%d/%s/%s/%s/calls%d/bg%d/%d%s", o.Status, o.CacheStatus, o.HdrTok, o.Header.Get("Age"), len(o.Calls), len(o.BgCalls), len(o.Body), be)
}

func short(k string) string {
	if len(k) > 40 {
		return k[:40]
	}
	return k
}

func clipStr(s string, n int) string {
	if len(s) > n {
		return s[:n]
	}
	return s
}

// panicSite extracts the first httpcache frame of a panic stack for the signature.
func panicSite(stack string) string {
	for _, l := range strings.Split(stack, "\n") {
		l = strings.TrimSpace(l)
		if strings.HasPrefix(l, "github.com/bartventer/httpcache") {
			if i := strings.IndexByte(l, '('); i > 0 {
				l = l[:i]
			}
			return "at " + strings.TrimPrefix(l, "github.com/bartventer/httpcache")
		}
	}
	return ""
}

// c10PreReplay: a replay with logging enabled first replays the same placement with the discard logger.
func c10PreReplay(choices []int) [][]int {
	if len(choices) > 1 && choices[1] != 0 {
		c := append([]int{}, choices...)
		c[1] = 0
		return [][]int{c}
	}
	return nil
}
