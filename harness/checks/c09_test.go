package checks

import (
	"bytes"
	"fmt"
	"net/http"
	"os"
	"sort"
	"strconv"
	"strings"
	"testing"
	"time"

	"verifharness/mc"
	"verifharness/oracle"
	"verifharness/world"

	_ "github.com/bartventer/httpcache/store/fscache"
	_ "github.com/bartventer/httpcache/store/memcache"
)

// C09 — fresh matching responses are served from the store (liveness twin of C01/C03/C04).
func init() {
	register(&Check{ID: "C09", Run: runC09, ShardDepth: 3, Custom: customC09, ReplayCustom: replayURLPair})
}

var c09Backends = []string{"rec", "memcache", "fscache", "fscache-enc", "fscache-reopen", "fscache-mtime"}

const c09Key = "6S-Ks2YYOW0xMvTzKSv6QD30gZeOi1c6Ydr-As5csWk="

// c09World builds a transport over the chosen backend; reopen() returns a second transport over the same store.
func c09World(backend string) (w *world.W, reopen func() *world.W, cleanup func()) {
	return c09WorldL(backend, "")
}

// c09WorldL is c09World with a logger ("", "text", "json": enabled at debug level).
func c09WorldL(backend, logger string) (w *world.W, reopen func() *world.W, cleanup func()) {
	switch backend {
	case "rec":
		w = world.New(world.Opt{Logger: logger})
		return w, func() *world.W { return w }, w.Close
	case "memcache":
		w = world.New(world.Opt{DSN: "memcache://", Logger: logger})
		return w, func() *world.W { return w }, func() {}
	}
	dir, err := os.MkdirTemp(os.Getenv("VERIF_SCRATCH"), "c09-")
	if err != nil {
		panic(err)
	}
	dsn := "fscache://" + dir + "?appname=app"
	switch backend {
	case "fscache-enc":
		dsn += "&encrypt=on&encrypt_key=" + c09Key
	case "fscache-mtime":
		dsn += "&update_mtime=on"
	}
	w = world.New(world.Opt{DSN: dsn, Logger: logger})
	reopen = func() *world.W {
		if backend != "fscache-reopen" {
			return w
		}
		// a new transport (a fresh fscache.Open) over the same directory, same scripted origin
		return world.NewWithOrigin(world.Opt{DSN: dsn}, w.Origin)
	}
	return w, reopen, func() { _ = os.RemoveAll(dir) }
}

func runC09(x *mc.X) {
	mode := mc.Pick(x, "mode", []string{"freshness", "spelling", "history", "uri-length", "many-variants"})
	switch mode {
	case "uri-length":
		runC09Length(x)
	case "many-variants":
		runC09Many(x)
	case "freshness":
		runC09Fresh(x)
	case "spelling":
		runC09Spelling(x)
	case "history":
		runC09History(x)
	}
}

var c09Statuses = []int{200, 203, 301, 308, 404, 405, 410, 414, 501}

func runC09Fresh(x *mc.X) {
	var r c01Resp
	r.maxAge = mc.Pick(x, "resp.max-age", []string{"", "10", "3600", "2147483648", "9223372037"})
	r.expires = mc.Pick(x, "resp.expires", []string{"", "10", "3600"})
	r.lm = mc.Pick(x, "resp.last-modified", []string{"", "-1000", "-1500000000", "epoch"})
	r.date = mc.Pick(x, "resp.date", []string{"now", "-5", "+5", "absent"})
	r.age = mc.Pick(x, "resp.age", []string{"", "0", "5"})
	r.status = mc.Pick(x, "resp.status", c09Statuses)
	r.delay = mc.Pick(x, "resp.delay", []int64{0, 3})
	backend := mc.Pick(x, "backend", c09Backends)
	// request directives that do not demand validation: the stored response is still the answer
	reqCC := ""
	if r.delay == 0 && r.date == "now" && r.age == "" {
		reqCC = mc.Pick(x, "request.cache-control", []string{"", "no-store", "max-stale=5", "min-fresh=1", "no-transform"})
	}
	if r.maxAge == "" && r.expires == "" && r.lm == "" {
		x.Skip() // no freshness information at all: not a cacheable response in the sense of the property
	}
	w, reopen, cleanup := c09World(backend)
	defer cleanup()
	spec := r.spec(time.Now())
	answer(w, spec)
	o1 := get(w, U)
	logObs(x, fmt.Sprintf("GET (origin: %d %v)", spec.Status, spec.H), o1)
	if o1.Tok == "" {
		return
	}
	tk := w.Origin.Toks[o1.Tok]
	st := &oracle.Stored{Status: tk.Status, Header: tk.Header, ReqTime: tk.ReqTime, RespTime: tk.RespTime}
	minLife := oracle.MinLife(st.Lifetimes())
	if minLife.Den == 1 && minLife.Num > 1<<31 {
		minLife.Num = 1 << 31 // a cache may clamp delta-seconds at 2^31 (RFC 9111 §1.2.2): nothing is demanded beyond
	}
	a0 := oracle.MaxAge(st.Ages(time.Now()))
	margin := minLife.Num/minLife.Den - a0
	if margin <= 3 {
		x.Skip() // never fresh by more than a second for long enough to probe
	}
	if margin > 1<<31 {
		margin = 1 << 31
	}
	elapsed := mc.Pick(x, "elapsed", []int64{0, margin - 2})
	world.Advance(secs(elapsed))
	w2 := reopen()
	answer(w2, RS{Status: 200, H: H("Cache-Control", "no-store")})
	now := time.Now()
	var o2 *world.Obs
	if reqCC != "" {
		o2 = get(w2, U, "Cache-Control", reqCC)
	} else {
		o2 = get(w2, U)
	}
	logObs(x, fmt.Sprintf("GET after %ds Cache-Control=%q", elapsed, reqCC), o2)
	ages := st.Ages(now)
	cls := fmt.Sprintf("fresh/%s/%d/%s", minLife.Why, r.status, backend)
	x.Nontrivial(cls)
	x.State(cls, r.maxAge, r.expires, r.lm, r.date, r.age, fmt.Sprint(r.delay, elapsed), obsClass(o2))
	x.Note(backend + " -> " + obsClass(o2))
	x.Sample(map[string]any{"origin_header": spec.H, "status": r.status, "backend": backend, "elapsed_s": elapsed, "oracle_lifetime_s": minLife.Num / minLife.Den, "oracle_age_s": ages, "observed": o2.String()})
	if o2.Panic != nil || o2.Err != nil {
		return
	}
	if !minLife.FreshAt(oracle.MaxAge(ages) + 1 + map[bool]int64{true: 1}[reqCC == "min-fresh=1"]) {
		return // not fresh by more than a second (plus the request's min-fresh) under every reading
	}
	if o2.Tok != o1.Tok || len(o2.Calls) != 0 {
		x.Failf(fmt.Sprintf("fresh response not served from the store: lifetime(%s) status=%d backend=%s", minLife.Why, r.status, backend),
			"stored response with lifetime %d s (%s) and age %v s was not answered from the store: %s", minLife.Num/minLife.Den, minLife.Why, ages, o2)
	}
}

type c09Spell struct {
	vary   string
	field  string
	a, b   []string // header lines of the two equivalent spellings
	reason string
}

var c09Spells = []c09Spell{
	{"Accept-Encoding", "Accept-Encoding", []string{"gzip, br"}, []string{"br,gzip"}, "list order"},
	{"Accept-Encoding", "Accept-Encoding", []string{"gzip, br"}, []string{"gzip ,  br"}, "whitespace"},
	{"Accept-Encoding", "Accept-Encoding", []string{"gzip, br"}, []string{"x-gzip, br"}, "x-gzip alias"},
	{"accept-encoding", "Accept-Encoding", []string{"gzip"}, []string{"gzip"}, "Vary name case"},
	{"Accept", "Accept", []string{"text/html, application/json"}, []string{"application/json,text/html"}, "list order"},
	{"Accept", "Accept", []string{"text/html;q=1.0, */*;q=0.5"}, []string{"*/*;q=0.5, text/html"}, "q-value normalisation"},
	{"Accept-Language", "Accept-Language", []string{"en, fr;q=0.5"}, []string{"fr;q=0.5,en"}, "list order with q"},
	{"Authorization", "Authorization", []string{"Bearer abc"}, []string{"bearer abc"}, "scheme case"},
	{"User-Agent", "User-Agent", []string{"Foo/1.0"}, []string{"foo/1.0"}, "documented case-insensitive"},
	{"X-A", "X-A", []string{"1, 2"}, []string{"1", "2"}, "field lines combined"},
	{"X-A", "X-A", []string{"1"}, []string{"1"}, "identity"},
	{"X-A", "X-A", nil, []string{""}, "absent = empty"},
	{"X-A, X-B", "X-A", []string{"1"}, []string{"1"}, "two nominated fields, one absent"},
	{"Cache-Control", "Cache-Control", []string{"max-stale=5, min-fresh=0"}, []string{"min-fresh=0,max-stale=5"}, "documented order-insensitive"},
}

func runC09Spelling(x *mc.X) {
	si := x.Choose("spelling-pair", len(c09Spells))
	sp := c09Spells[si]
	x.Trace[len(x.Trace)-1].Desc = sp.field + ": " + sp.reason
	dir := x.Choose("direction", 2)
	backend := mc.Pick(x, "backend", []string{"rec", "memcache", "fscache"})
	a, b := sp.a, sp.b
	if dir == 1 {
		a, b = b, a
	}
	w, _, cleanup := c09World(backend)
	defer cleanup()
	answer(w, RS{Status: 200, H: H("Cache-Control", "max-age=1000", "Vary", sp.vary)})
	mk := func(lines []string) *http.Request {
		r := world.Req("GET", U)
		for _, l := range lines {
			r.Header.Add(sp.field, l)
		}
		return r
	}
	o1 := w.Do(mk(a))
	logObs(x, fmt.Sprintf("GET %s=%q (origin Vary: %s)", sp.field, a, sp.vary), o1)
	world.Advance(secs(5))
	answer(w, RS{Status: 200, H: H("Cache-Control", "no-store")})
	o2 := w.Do(mk(b))
	logObs(x, fmt.Sprintf("GET %s=%q", sp.field, b), o2)
	x.Nontrivial("spelling/" + sp.field + "/" + sp.reason)
	x.State("spelling", sp.field, sp.reason, fmt.Sprint(dir), backend, obsClass(o2))
	x.Sample(map[string]any{"vary": sp.vary, "stored_with": a, "requested_with": b, "equivalence": sp.reason, "observed": o2.String()})
	if o2.Panic != nil || o2.Err != nil || o1.Tok == "" {
		return
	}
	if o2.Tok != o1.Tok || len(o2.Calls) != 0 {
		x.Failf("equivalent header spelling not served from the store: "+sp.field+" ("+sp.reason+")", "stored for %s=%q, requested with %s=%q (Vary: %s): %s", sp.field, a, sp.field, b, sp.vary, o2)
	}
}

var c09Events = []string{"GET other-uri", "GET other-variant", "HEAD", "OPTIONS", "GET+Range", "GET only-if-cached", "POST other-uri 200", "POST 500", "POST 404", "GET self", "TRACE", "GET other-uri with Location: target",
	"earlier variant's entry evicted", "GET earlier-variant", "later variant's entry evicted"}

func runC09History(x *mc.X) {
	n := mc.Pick(x, "events", []int{1, 2, 3})
	backend := mc.Pick(x, "backend", []string{"rec", "fscache"})
	w, _, cleanup := c09World(backend)
	defer cleanup()
	// another variant is stored before the one under observation, so that the latter is not the first of the URI's index
	answer(w, RS{Status: 200, H: H("Cache-Control", "max-age=100000", "Vary", "X-A")})
	o0 := get(w, U, "X-A", "0")
	logObs(x, "GET X-A=0 (an earlier variant, long-lived)", o0)
	world.Advance(secs(1))
	answer(w, RS{Status: 200, H: H("Cache-Control", "max-age=100000", "Vary", "X-A")})
	o1 := get(w, U, "X-A", "1")
	logObs(x, "GET X-A=1 (stored, long-lived)", o1)
	// evict removes the stored response that carries tok, the way an external clean-up of the cache directory would
	evict := func(tok string) *world.Obs {
		if w.Conn != nil && tok != "" {
			for _, k := range w.Conn.Keys() {
				if v, _ := w.Conn.Peek(k); len(v) > 0 && v[0] != '[' && bytes.Contains(v, []byte(tok)) {
					_ = w.Conn.Delete(k)
				}
			}
		}
		return &world.Obs{}
	}
	tok2 := ""
	var evs []string
	for i := 0; i < n; i++ {
		ev := mc.Pick(x, fmt.Sprintf("event%d", i+1), c09Events)
		evs = append(evs, ev)
		world.Advance(secs(1))
		var o *world.Obs
		switch ev {
		case "GET other-uri":
			answer(w, RS{Status: 200, H: H("Cache-Control", "max-age=100")})
			o = get(w, "http://example.com/other")
		case "GET other-uri with Location: target":
			answer(w, RS{Status: 200, H: H("Cache-Control", "max-age=100", "Location", U, "Content-Location", U)})
			o = get(w, "http://example.com/other2")
		case "GET other-variant":
			answer(w, RS{Status: 200, H: H("Cache-Control", "max-age=100", "Vary", "X-A")})
			o = get(w, U, "X-A", "2")
			if tok2 == "" {
				tok2 = o.Tok
			}
		case "earlier variant's entry evicted":
			if backend != "rec" {
				x.Skip()
			}
			o = evict(o0.Tok)
		case "later variant's entry evicted":
			if backend != "rec" || tok2 == "" {
				x.Skip()
			}
			o = evict(tok2)
		case "GET earlier-variant":
			answer(w, RS{Status: 200, H: H("Cache-Control", "max-age=100", "Vary", "X-A")})
			o = get(w, U, "X-A", "0")
		case "HEAD", "OPTIONS", "TRACE":
			answer(w, RS{Status: 200, H: H("Cache-Control", "max-age=100")})
			o = w.Do(world.Req(ev, U, "X-A", "1"))
		case "GET+Range":
			answer(w, RS{Status: 206, H: H("Content-Range", "bytes 0-1/10")})
			o = get(w, U, "X-A", "1", "Range", "bytes=0-1")
		case "GET only-if-cached":
			o = get(w, U, "X-A", "1", "Cache-Control", "only-if-cached")
		case "POST other-uri 200":
			answer(w, RS{Status: 200})
			o = w.Do(world.Req("POST", "http://example.com/other"))
		case "POST 500":
			answer(w, RS{Status: 500})
			o = w.Do(world.Req("POST", U))
		case "POST 404":
			answer(w, RS{Status: 404})
			o = w.Do(world.Req("POST", U))
		case "GET self":
			o = get(w, U, "X-A", "1")
		}
		logObs(x, ev, o)
	}
	world.Advance(secs(1))
	answer(w, RS{Status: 200, H: H("Cache-Control", "no-store")})
	o2 := get(w, U, "X-A", "1")
	logObs(x, "GET X-A=1 again", o2)
	x.Nontrivial("history/" + strings.Join(evs, ","))
	x.State("history", strings.Join(evs, ","), backend, obsClass(o2))
	x.Sample(map[string]any{"events_between": evs, "backend": backend, "observed": o2.String()})
	if o2.Panic != nil || o2.Err != nil || o1.Tok == "" {
		return
	}
	if o2.Tok != o1.Tok || len(o2.Calls) != 0 {
		sort.Strings(evs)
		x.Failf("entry lost after non-invalidating requests: "+strings.Join(evs, ","), "after %v the stored fresh response is no longer served: %s", evs, o2)
	}
}

// runC09Length: a stored response is served again whatever the length of its URI (backends derive file names from it).
func runC09Length(x *mc.X) {
	backend := mc.Pick(x, "backend", c09Backends)
	n := mc.Pick(x, "uri-length", []int{64, 150, 171, 189, 190, 191, 192, 200, 230, 254, 255, 256, 257, 300, 511, 512, 1000, 5000})
	vary := x.Choose("vary", 2) == 1
	w, reopen, cleanup := c09World(backend)
	defer cleanup()
	u := "http://example.com/l?"
	for i := 0; len(u) < n; i++ {
		u += string(rune('a' + i%26))
	}
	h := H("Cache-Control", "max-age=1000")
	var rh []string
	if vary {
		h = append(h, [2]string{"Vary", "Accept-Language"})
		rh = []string{"Accept-Language", "en"}
	}
	answer(w, RS{Status: 200, H: h})
	o1 := get(w, u, rh...)
	logObs(x, fmt.Sprintf("GET of a URI of %d bytes", len(u)), o1)
	world.Advance(secs(5))
	w2 := reopen()
	answer(w2, RS{Status: 200, H: H("Cache-Control", "no-store")})
	o2 := get(w2, u, rh...)
	logObs(x, "same GET 5 s later", o2)
	x.Nontrivial(fmt.Sprintf("uri-length/%s", backend))
	x.State("uri-length", backend, fmt.Sprint(n, vary), obsClass(o2))
	if o1.Tok == "" || o2.Panic != nil || o2.Err != nil {
		return
	}
	if o2.Tok != o1.Tok || len(o2.Calls) != 0 {
		x.Failf(fmt.Sprintf("fresh response for a long URI not served from the store: backend=%s", backend), "URI of %d bytes (Vary: %v): %s", len(u), vary, o2)
	}
}

// runC09Many: n variants of one URI are stored one after the other (storing a variant does not invalidate another),
// then every one of them is requested again: each is answered from the store with its own response.
func runC09Many(x *mc.X) {
	backend := mc.Pick(x, "backend", c09Backends)
	n := mc.Pick(x, "variants", []int{2, 9, 17, 33, 100})
	field := mc.Pick(x, "field", []string{"X-Tenant", "Accept-Language"})
	order := mc.Pick(x, "second-pass", []string{"same order", "reverse order"})
	w, reopen, cleanup := c09World(backend)
	defer cleanup()
	answer(w, RS{Status: 200, H: H("Cache-Control", "max-age=100000", "Vary", field)})
	toks := make([]string, n)
	val := func(i int) string { return fmt.Sprintf("v%03d", i) }
	for i := 0; i < n; i++ {
		o := get(w, U, field, val(i))
		toks[i] = o.Tok
		if i < 3 || i == n-1 {
			logObs(x, fmt.Sprintf("GET %s=%s (origin: 200, Vary: %s)", field, val(i), field), o)
		}
		world.Advance(secs(1))
	}
	w2 := reopen()
	answer(w2, RS{Status: 200, H: H("Cache-Control", "no-store")})
	x.Nontrivial(fmt.Sprintf("many-variants/%s/%d", backend, n))
	lost := 0
	for k := 0; k < n; k++ {
		i := k
		if order == "reverse order" {
			i = n - 1 - k
		}
		o := get(w2, U, field, val(i))
		if o.Panic != nil || o.Err != nil || toks[i] == "" {
			continue
		}
		if o.Tok != toks[i] || len(o.Calls) != 0 {
			if lost == 0 {
				logObs(x, fmt.Sprintf("second pass: GET %s=%s", field, val(i)), o)
				x.Failf(fmt.Sprintf("fresh variant not served from the store after other variants were stored: backend=%s", backend), "%d variants of one URI (Vary: %s), variant %s: %s", n, field, val(i), o)
			}
			lost++
		}
	}
	x.State("many-variants", backend, fmt.Sprint(n), field, order, fmt.Sprint(lost))
}

// customC09 adds the URI part: every pair of strictly equivalent spellings must share stored responses.
func customC09(t *testing.T, e *mc.Explorer) *mc.ShardResult {
	start := time.Now()
	res := e.Explore(t)
	cases := uGrammar(e.Tier)
	n, herr, incomplete := observeAllKeys(t, e, cases, "c09")
	if herr != "" {
		res.HarnessErrs = append(res.HarnessErrs, herr)
	}
	if incomplete {
		res.Exhaustive = false
		if res.Notes == nil {
			res.Notes = map[string]int{}
		}
		res.Notes["the time budget ended before every shard had published its slice of the key observations"]++
	}
	res.Executions += int64(n)
	res.Transitions += int64(3 * n)
	if res.Nontrivial == nil {
		res.Nontrivial = map[string]int{}
	}
	byStrict := map[string][]*uCase{}
	for _, c := range cases {
		if c.key != "" {
			byStrict[c.strict.String()] = append(byStrict[c.strict.String()], c)
		}
	}
	forms := make([]string, 0, len(byStrict))
	for f := range byStrict {
		forms = append(forms, f)
	}
	sort.Strings(forms)
	viol := map[string]*mc.Violation{}
	pairs, classes := 0, 0
	for _, f := range forms {
		if !e.Deadline.IsZero() && time.Now().After(e.Deadline) { // the budget ended: report what was completed
			res.Exhaustive = false
			if res.Notes == nil {
				res.Notes = map[string]int{}
			}
			res.Notes["time budget ended inside the URI passes"]++
			break
		}
		class := byStrict[f]
		if len(class) < 2 {
			continue
		}
		classes++
		if e.Shards > 1 && int(strHash(f))%e.Shards != e.Shard {
			continue
		}
		e.AddState("strict", f)
		res.Nontrivial[fmt.Sprintf("equivalence class of %d spellings", len(class))]++
		// members grouped by observed key: spellings under one key trivially share; confirm across keys
		reps := map[string]*uCase{}
		var ks []string
		for _, c := range class {
			if _, ok := reps[c.key]; !ok {
				reps[c.key] = c
				ks = append(ks, c.key)
			}
		}
		sort.Strings(ks)
		// one end-to-end confirmation inside a key group, all ordered pairs across key groups
		if len(class) >= 2 && len(ks) == 1 {
			a, b := class[0], class[len(class)-1]
			pairs++
			if reused, narr := confirmPair(t, a.raw, b.raw); !reused {
				addURILiveness(viol, e, a, b, narr)
			}
			res.Executions++
			res.Transitions += 6
		}
		for i := range ks {
			for j := range ks {
				if i == j {
					continue
				}
				a, b := reps[ks[i]], reps[ks[j]]
				pairs++
				res.Executions++
				res.Transitions += 6
				if reused, narr := confirmPair(t, a.raw, b.raw); !reused {
					addURILiveness(viol, e, a, b, narr)
				}
			}
		}
	}
	sigs := make([]string, 0, len(viol))
	for s := range viol {
		sigs = append(sigs, s)
	}
	sort.Strings(sigs)
	for _, s := range sigs {
		res.Violations = append(res.Violations, viol[s])
	}
	if res.Extra == nil {
		res.Extra = map[string]any{}
	}
	if e.Shard == 0 { // identical in every shard: reported once (the runner sums numeric extras)
		res.Extra["urls_in_grammar"] = len(cases)
	}
	res.Extra["strict_equivalence_classes_with_several_spellings"] = classes
	res.Extra["uri_pairs_confirmed_end_to_end"] = pairs
	res.WallS = time.Since(start).Seconds()
	return res
}

func addURILiveness(viol map[string]*mc.Violation, e *mc.Explorer, a, b *uCase, narr []string) {
	// name what differs between the raw spellings (component-wise)
	sig := "equivalent URI spelling not served from the store: " + rawDiff(a, b)
	if v, ok := viol[sig]; ok {
		v.Count++
		return
	}
	viol[sig] = &mc.Violation{Property: "C09", Signature: sig, Count: 1, Shard: e.Shard, Log: narr,
		Message: fmt.Sprintf("a response stored via %q is not returned for the RFC 3986-equivalent %q (common normal form %s; store keys %q vs %q)", a.raw, b.raw, a.strict, a.key, b.key),
		Choices: []int{}, Trace: []mc.Pt{{Label: "store-url", Desc: strconv.Quote(a.raw)}, {Label: "request-url", Desc: strconv.Quote(b.raw)}}}
}

func rawDiff(a, b *uCase) string {
	var d []string
	if a.u.Scheme != b.u.Scheme {
		d = append(d, "scheme")
	}
	if a.u.Host != b.u.Host {
		d = append(d, "host/port")
	}
	if a.u.EscapedPath() != b.u.EscapedPath() {
		d = append(d, "path")
	}
	if a.u.RawQuery != b.u.RawQuery || a.u.ForceQuery != b.u.ForceQuery {
		d = append(d, "query")
	}
	if a.u.Fragment != b.u.Fragment {
		d = append(d, "fragment")
	}
	return strings.Join(d, "+")
}
