package checks

import (
	"fmt"
	"net/http"
	"sort"
	"strings"

	"verifharness/mc"
	"verifharness/world"
)

// C04 — a stored response is reused only for a matching variant (Vary).
func init() { register(&Check{ID: "C04", Run: runC04, ShardDepth: 2}) }

type c04Req struct {
	name string
	hdr  [][2]string
}

var c04Reqs = []c04Req{
	{"none", nil},
	{"X-A:1", [][2]string{{"X-A", "1"}}},
	{"X-A:2", [][2]string{{"X-A", "2"}}},
	{"X-A:1,X-B:2", [][2]string{{"X-A", "1"}, {"X-B", "2"}}},
	{"X-A:1X-B2", [][2]string{{"X-A", "1X-B2"}}},
	{"X-A:empty", [][2]string{{"X-A", ""}}},
	{"X-A:[1][2]", [][2]string{{"X-A", "1"}, {"X-A", "2"}}},
	{"X-A:1, 2", [][2]string{{"X-A", "1, 2"}}},
	{"AE:gzip", [][2]string{{"Accept-Encoding", "gzip"}}},
	{"AE:gzip, br", [][2]string{{"Accept-Encoding", "gzip, br"}}},
	{"AE:br,gzip", [][2]string{{"Accept-Encoding", "br,gzip"}}},
	{"AE:br", [][2]string{{"Accept-Encoding", "br"}}},
	{"AE:[gzip][br]", [][2]string{{"Accept-Encoding", "gzip"}, {"Accept-Encoding", "br"}}},
	{"X-B:2", [][2]string{{"X-B", "2"}}},
	{"X-A:1,X-B:3", [][2]string{{"X-A", "1"}, {"X-B", "3"}}},
}

// requests that force a validation (the origin answers with a full 200, which replaces the selected entry)
var c04NoCache = []c04Req{
	{"none+no-cache", [][2]string{{"Cache-Control", "no-cache"}}},
	{"X-A:1+no-cache", [][2]string{{"X-A", "1"}, {"Cache-Control", "no-cache"}}},
	{"X-A:2+no-cache", [][2]string{{"X-A", "2"}, {"Cache-Control", "no-cache"}}},
	{"X-A:1,X-B:2+no-cache", [][2]string{{"X-A", "1"}, {"X-B", "2"}, {"Cache-Control", "no-cache"}}},
}

// narrow alphabet for the deeper plan
var c04Narrow = []c04Req{
	{"X-A:1,X-B:2", [][2]string{{"X-A", "1"}, {"X-B", "2"}}},
	{"X-A:1,X-B:2+no-cache", [][2]string{{"X-A", "1"}, {"X-B", "2"}, {"Cache-Control", "no-cache"}}},
	{"X-A:1,X-B:3", [][2]string{{"X-A", "1"}, {"X-B", "3"}}},
	{"X-A:2,X-B:2", [][2]string{{"X-A", "2"}, {"X-B", "2"}}},
	{"X-A:2,X-B:2+no-cache", [][2]string{{"X-A", "2"}, {"X-B", "2"}, {"Cache-Control", "no-cache"}}},
	{"none", nil},
}

var c04NarrowVarys = []string{"", "X-A", "X-B", "X-A, X-B", "*"}

// "\n" separates field lines: the origin sends several Vary header fields
var c04Varys = []string{"", "X-A", "X-A, X-B", "X-B, X-A", "x-a", "Accept-Encoding", "*", "X-A, Accept-Encoding", "X-B, *", "*, X-A", "X-A\nX-B"}

// varyClass is the oracle's equivalence class of a request's value for field f.
func varyClass(h http.Header, f string) string {
	vs := h.Values(f)
	joined := strings.Join(vs, ", ") // RFC 9111 §4.1 / RFC 9110 §5.3: field lines are combined
	if strings.EqualFold(f, "Accept-Encoding") {
		var toks []string
		for _, t := range strings.Split(joined, ",") {
			t = strings.ToLower(strings.TrimSpace(t))
			if t == "x-gzip" {
				t = "gzip"
			}
			if t != "" {
				toks = append(toks, t)
			}
		}
		sort.Strings(toks)
		return strings.Join(toks, ",")
	}
	// list members compared after trimming whitespace around commas
	var parts []string
	for _, t := range strings.Split(joined, ",") {
		parts = append(parts, strings.TrimSpace(t))
	}
	return strings.Join(parts, ",")
}

func runC04(x *mc.X) {
	plan := mc.Pick(x, "plan", []string{"wide", "narrow-deep", "different-meaning-pairs", "vary-forms", "value that begins like the rest of another field name"})
	if plan == "value that begins like the rest of another field name" {
		runC04Framing(x)
		return
	}
	if plan == "different-meaning-pairs" {
		runC04Pairs(x)
		return
	}
	depth := 3
	reqs, varys := append(append([]c04Req{}, c04Reqs...), c04NoCache...), c04Varys
	if x.Tier() != "thorough" {
		varys = []string{"", "X-A", "X-A, X-B", "Accept-Encoding", "*"}
	}
	if plan == "vary-forms" { // unusual spellings of the Vary field itself, over the narrow request alphabet
		depth, reqs, varys = 3, c04Narrow, []string{"", "X-A", "X-B, *", "*, X-A", "X-A\nX-B", "x-a , x-b"}
	}
	if plan == "narrow-deep" {
		depth, reqs, varys = 4, c04Narrow, c04NarrowVarys
	}
	if x.Tier() == "thorough" {
		depth++
	}
	w := world.New(world.Opt{})
	defer w.Close()
	var hist []string
	for step := 1; step <= depth; step++ {
		ri := x.Choose(fmt.Sprintf("step%d.request", step), len(reqs))
		x.Trace[len(x.Trace)-1].Desc = reqs[ri].name
		vary := mc.Pick(x, fmt.Sprintf("step%d.origin-vary", step), varys)
		if x.Tier() == "thorough" && plan == "wide" && step == 4 && (ri > 7 || vary == "x-a" || vary == "X-B, X-A" || vary == "X-A, Accept-Encoding") {
			x.Skip() // thorough: the fourth step of the wide plan uses reduced menus
		}
		h := H("Cache-Control", "max-age=100000")
		for _, line := range strings.Split(vary, "\n") {
			h = hdrIf(h, "Vary", line)
		}
		answer(w, RS{Status: 200, H: h})
		req := world.Req("GET", U)
		for _, kv := range reqs[ri].hdr {
			req.Header.Add(kv[0], kv[1])
		}
		o := w.Do(req)
		logObs(x, fmt.Sprintf("step %d: GET %s (origin would answer Vary: %q)", step, reqs[ri].name, vary), o)
		hist = append(hist, reqs[ri].name+"|"+vary)
		world.Advance(secs(1))
		if o.Panic != nil || o.Err != nil {
			return
		}
		x.State(fmt.Sprint(step), reqs[ri].name, obsClass(o), strings.Join(w.Conn.Keys(), "\n"), o.Tok)
		if len(o.Calls) > 0 || o.Tok == "" {
			continue // answered by the origin in this exchange
		}
		// served from the store: the token was minted for an earlier request
		tk := w.Origin.Toks[o.Tok]
		if tk == nil {
			x.Failf("unknown token served", "%s", o)
			return
		}
		storedVary := strings.Join(tk.Header.Values("Vary"), ", ")
		x.Nontrivial(fmt.Sprintf("reuse/vary=%s/req=%s", storedVary, reqs[ri].name))
		x.Note("served from store")
		x.Sample(map[string]any{"history": hist, "served_token_minted_for": tk.ReqHdr, "stored_vary": storedVary, "request": reqs[ri].hdr})
		star := false
		for _, f := range strings.Split(storedVary, ",") {
			star = star || strings.TrimSpace(f) == "*"
		}
		if star {
			x.Failf("Vary: * response served without validation"+ifs(strings.TrimSpace(storedVary) != "*", " (list containing *)"), "token %s (Vary: %s) returned for %s", o.Tok, storedVary, reqs[ri].name)
			return
		}
		for _, f := range strings.Split(storedVary, ",") {
			f = strings.TrimSpace(f)
			if f == "" {
				continue
			}
			a, b := varyClass(tk.ReqHdr, f), varyClass(req.Header, f)
			if a != b {
				x.Failf(fmt.Sprintf("wrong variant served: field %s stored-for=%q request=%q", http.CanonicalHeaderKey(f), clip(a), clip(b)),
					"response %s was selected by %s=%q (Vary: %s) but returned for a request with %s=%q; history %v", o.Tok, f, tk.ReqHdr.Values(f), storedVary, f, req.Header.Values(f), hist)
				return
			}
		}
	}
}

func clip(s string) string {
	if len(s) > 24 {
		return s[:24]
	}
	return s
}

// c04Pairs: two values of a commonly nominated field that clearly mean different things — whatever
// normalisation the cache applies, requests carrying them must not receive each other's responses.
var c04Pairs = [][3]string{
	{"Accept", "text/html", "application/json"},
	{"Accept", "text/html;q=0.5, application/json", "text/html, application/json;q=0.5"},
	{"Accept", "text/html", "text/html, application/json"},
	{"Accept-Language", "en", "fr"},
	{"Accept-Language", "en, fr;q=0.5", "fr, en;q=0.5"},
	{"Accept-Encoding", "gzip", "br"},
	{"Accept-Encoding", "gzip, br", "gzip"},
	{"Accept-Encoding", "gzip", "identity"},
	{"Authorization", "Bearer abc", "Bearer abd"},
	{"Authorization", "Bearer abc", "Bearer ABC"},
	{"Authorization", "Basic abc", "Bearer abc"},
	{"Authorization", `OAuth realm="api", oauth_token="alice"`, `OAuth realm="api", oauth_token="bob"`},
	{"Authorization", `Digest username="u", response="aaaa"`, `Digest username="u", response="bbbb"`},
	{"Authorization", "AWS4-HMAC-SHA256 Credential=a, Signature=1", "AWS4-HMAC-SHA256 Credential=a, Signature=2"},
	{"User-Agent", "agent/1", "agent/2"},
	{"User-Agent", "agent/1 (x; y) lib/2", "agent/1 (x; y) lib/3"},
	{"Accept", "text/html; level=1", "text/html; level=2"},
	{"Accept-Language", "en-US", "en-GB"},
	{"Cookie", "a=1", "a=2"},
	{"Cookie", "a=1; b=2", "a=1"},
	{"X-A", "1", "10"},
	{"X-A", "1", "1 " + "2"},
	{"Accept-Charset", "utf-8", "iso-8859-1"},
	// a member with q=0 is "not acceptable": next to a wildcard that is not the same as leaving it out
	{"Accept-Encoding", "*", "*, gzip;q=0"},
	{"Accept", "*/*", "*/*, text/html;q=0"},
	{"Accept-Language", "*, de;q=0.0", "*"},
	{"Accept-Encoding", "gzip;q=0.000, *", "gzip;q=0.001, *"},
	{"Accept-Encoding", "br, gzip;q=0.000", "br, gzip;q=0.001"},
	{"Accept-Encoding", "gzip;q=0", "identity;q=0"},
	{"Accept-Language", "de;q=0.00", "fr;q=0"},
	// ... and a partial wildcard is a wildcard for what it covers
	{"Accept", "text/*", "text/*, text/html;q=0"},
	{"Accept", "text/*;q=0.5, text/html;q=0", "text/*;q=0.5"},
	{"X-Api-Key", "alice", "bob"},
	{"Dnt", "1", "0"},
	{"Sec-Ch-Ua-Mobile", "?0", "?1"},
	// obs-text (bytes >= 0x80 that are not UTF-8) is legal in field values; an index format that cannot hold such bytes must not merge them
	{"X-A", "Ren\xe9e", "Ren\xe8e"},
	{"X-A", "Ren\xe9e", "Ren\ufffde"},
	{"User-Agent", "caf\xe9/1", "caf\ufffd/1"},
	{"X-A", "Ren\xe9e", "Ren%E9e"},
	{"X-A", "Ren\xe9e", `Ren\xe9e`},
	{"X-A", "Ren\xe9e", `"Ren\xe9e"`},
	{"X-A", "\xff", "\xfe"},
	{"If-Modified-Since", "Mon, 01 Jan 1990 00:00:00 GMT", "Tue, 02 Jan 1990 00:00:00 GMT"},
}

func runC04Pairs(x *mc.X) {
	pi := x.Choose("pair", len(c04Pairs))
	p := c04Pairs[pi]
	x.Trace[len(x.Trace)-1].Desc = fmt.Sprintf("%s: %q vs %q", p[0], p[1], p[2])
	dir := x.Choose("direction", 2)
	vary := mc.Pick(x, "vary-spelling", []string{"canonical", "lower", "with-other-field", "upper", "interior capitals"})
	a, b := p[1], p[2]
	if dir == 1 {
		a, b = b, a
	}
	v := p[0]
	switch vary {
	case "lower":
		v = strings.ToLower(v)
	case "with-other-field":
		v = "X-Other, " + v
	case "upper":
		v = strings.ToUpper(v)
	case "interior capitals": // X-API-Key, DNT, Sec-CH-UA-Mobile, Accept-LANguage: field names are case-insensitive
		parts := strings.Split(v, "-")
		for i, p := range parts {
			if len(p) <= 3 {
				parts[i] = strings.ToUpper(p)
			} else {
				parts[i] = strings.ToUpper(p[:3]) + p[3:]
			}
		}
		v = strings.Join(parts, "-")
	}
	w := world.New(world.Opt{})
	defer w.Close()
	answer(w, RS{Status: 200, H: H("Cache-Control", "max-age=100000", "Vary", v)})
	o1 := get(w, U, p[0], a)
	logObs(x, fmt.Sprintf("GET %s=%q (origin Vary: %s)", p[0], a, v), o1)
	world.Advance(secs(1))
	o2 := get(w, U, p[0], b)
	logObs(x, fmt.Sprintf("GET %s=%q", p[0], b), o2)
	x.Nontrivial("pair/" + p[0])
	x.State("pair", p[0], a, b, vary, obsClass(o2))
	x.Sample(map[string]any{"field": p[0], "stored_for": a, "requested_with": b, "vary": v, "observed": o2.String()})
	if o2.Panic == nil && o2.Err == nil && o1.Tok != "" && o2.Tok == o1.Tok {
		x.Failf("wrong variant served: "+p[0]+" values with different meaning share a response", "stored for %s=%q (Vary: %s), returned for %s=%q: %s", p[0], a, v, p[0], b, o2)
	}
}

// c04Framings: a nominated field F2, a longer field name F1 = F2 + rest, and a value v. Wherever the cache combines a
// field name and a value into one string (a hash input, a memo key, an index key), ("F1", v) and ("F2", rest+v) must
// stay apart — the same demand as for the variant hash, for state that outlives one resource.
var c04Framings = [][3]string{
	{"Accept", "Accept-Language", "en"},
	{"Accept", "Accept-Encoding", "gzip"},
	{"Accept", "Accept-Charset", "utf-8"},
	{"X-A", "X-Ab", "1"},
	{"Origin", "Origin-Trial", "https://a.test"},
}

func runC04Framing(x *mc.X) {
	f := c04Framings[x.Choose("fields", len(c04Framings))]
	f2, f1, v := f[0], f[1], f[2]
	rest := f1[len(f2):]
	x.Trace[len(x.Trace)-1].Desc = fmt.Sprintf("%s / %s with value %q", f2, f1, v)
	first := mc.Pick(x, "seen first", []string{"the longer field", "the shorter field with the longer value", "neither"})
	dir := x.Choose("direction", 2)
	w := world.New(world.Opt{})
	defer w.Close()
	other := "http://example.test/other"
	switch first {
	case "the longer field":
		answer(w, RS{Status: 200, H: H("Cache-Control", "max-age=100000", "Vary", f1)})
		logObs(x, fmt.Sprintf("GET %s with %s=%q (origin Vary: %s)", other, f1, v, f1), get(w, other, f1, v))
	case "the shorter field with the longer value":
		answer(w, RS{Status: 200, H: H("Cache-Control", "max-age=100000", "Vary", f2)})
		logObs(x, fmt.Sprintf("GET %s with %s=%q (origin Vary: %s)", other, f2, rest+v, f2), get(w, other, f2, rest+v))
	}
	a, b := rest+v, v
	if dir == 1 {
		a, b = b, a
	}
	answer(w, RS{Status: 200, H: H("Cache-Control", "max-age=100000", "Vary", f2)})
	o1 := get(w, U, f2, a)
	logObs(x, fmt.Sprintf("GET %s=%q (origin Vary: %s)", f2, a, f2), o1)
	world.Advance(secs(1))
	o2 := get(w, U, f2, b)
	logObs(x, fmt.Sprintf("GET %s=%q", f2, b), o2)
	// and the longer field on its own resource: its value v against the value another normalisation would give it
	answer(w, RS{Status: 200, H: H("Cache-Control", "max-age=100000", "Vary", f1)})
	o3 := get(w, other+"2", f1, v)
	logObs(x, fmt.Sprintf("GET %s2 with %s=%q (origin Vary: %s)", other, f1, v, f1), o3)
	o4 := get(w, other+"2", f1, v+"x")
	logObs(x, fmt.Sprintf("GET %s2 with %s=%q", other, f1, v+"x"), o4)
	x.Nontrivial("framing/" + f2 + "/" + first)
	x.State("framing", f2, f1, first, fmt.Sprint(dir), obsClass(o2), obsClass(o4))
	if o2.Panic == nil && o2.Err == nil && o1.Tok != "" && o2.Tok == o1.Tok {
		x.Failf("wrong variant served: a value that begins like the rest of another field name", "stored for %s=%q (Vary: %s), returned for %s=%q: %s", f2, a, f2, f2, b, o2)
	}
	if o4.Panic == nil && o4.Err == nil && o3.Tok != "" && o4.Tok == o3.Tok {
		x.Failf("wrong variant served: a value that begins like the rest of another field name", "stored for %s=%q (Vary: %s), returned for %s=%q: %s", f1, v, f1, f1, v+"x", o4)
	}
}
