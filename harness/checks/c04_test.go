package checks

import (
	"fmt"
	"net/http"
	"sort"
	"strings"

	"verifharness/mc"
	"verifharness/world"
)

// C04 — a stored response is reused only for a matching variant (Vary).
func init() { register(&Check{ID: "C04", Run: runC04, ShardDepth: 2}) }

type c04Req struct {
	name string
	hdr  [][2]string
}

var c04Reqs = []c04Req{
	{"none", nil},
	{"X-A:1", [][2]string{{"X-A", "1"}}},
	{"X-A:2", [][2]string{{"X-A", "2"}}},
	{"X-A:1,X-B:2", [][2]string{{"X-A", "1"}, {"X-B", "2"}}},
	{"X-A:1X-B2", [][2]string{{"X-A", "1X-B2"}}},
	{"X-A:empty", [][2]string{{"X-A", ""}}},
	{"X-A:[1][2]", [][2]string{{"X-A", "1"}, {"X-A", "2"}}},
	{"X-A:1, 2", [][2]string{{"X-A", "1, 2"}}},
	{"AE:gzip", [][2]string{{"Accept-Encoding", "gzip"}}},
	{"AE:gzip, br", [][2]string{{"Accept-Encoding", "gzip, br"}}},
	{"AE:br,gzip", [][2]string{{"Accept-Encoding", "br,gzip"}}},
	{"AE:br", [][2]string{{"Accept-Encoding", "br"}}},
	{"AE:[gzip][br]", [][2]string{{"Accept-Encoding", "gzip"}, {"Accept-Encoding", "br"}}},
	{"X-B:2", [][2]string{{"X-B", "2"}}},
	{"X-A:1,X-B:3", [][2]string{{"X-A", "1"}, {"X-B", "3"}}},
}

// requests that force a validation (the origin answers with a full 200, which replaces the selected entry)
var c04NoCache = []c04Req{
	{"none+no-cache", [][2]string{{"Cache-Control", "no-cache"}}},
	{"X-A:1+no-cache", [][2]string{{"X-A", "1"}, {"Cache-Control", "no-cache"}}},
	{"X-A:2+no-cache", [][2]string{{"X-A", "2"}, {"Cache-Control", "no-cache"}}},
	{"X-A:1,X-B:2+no-cache", [][2]string{{"X-A", "1"}, {"X-B", "2"}, {"Cache-Control", "no-cache"}}},
}

// narrow alphabet for the deeper plan
var c04Narrow = []c04Req{
	{"X-A:1,X-B:2", [][2]string{{"X-A", "1"}, {"X-B", "2"}}},
	{"X-A:1,X-B:2+no-cache", [][2]string{{"X-A", "1"}, {"X-B", "2"}, {"Cache-Control", "no-cache"}}},
	{"X-A:1,X-B:3", [][2]string{{"X-A", "1"}, {"X-B", "3"}}},
	{"X-A:2,X-B:2", [][2]string{{"X-A", "2"}, {"X-B", "2"}}},
	{"X-A:2,X-B:2+no-cache", [][2]string{{"X-A", "2"}, {"X-B", "2"}, {"Cache-Control", "no-cache"}}},
	{"none", nil},
}

var c04NarrowVarys = []string{"", "X-A", "X-B", "X-A, X-B", "*"}

var c04Varys = []string{"", "X-A", "X-A, X-B", "X-B, X-A", "x-a", "Accept-Encoding", "*", "X-A, Accept-Encoding"}

// varyClass is the oracle's equivalence class of a request's value for field f.
func varyClass(h http.Header, f string) string {
	vs := h.Values(f)
	joined := strings.Join(vs, ", ") // RFC 9111 §4.1 / RFC 9110 §5.3: field lines are combined
	if strings.EqualFold(f, "Accept-Encoding") {
		var toks []string
		for _, t := range strings.Split(joined, ",") {
			t = strings.ToLower(strings.TrimSpace(t))
			if t == "x-gzip" {
				t = "gzip"
			}
			if t != "" {
				toks = append(toks, t)
			}
		}
		sort.Strings(toks)
		return strings.Join(toks, ",")
	}
	// list members compared after trimming whitespace around commas
	var parts []string
	for _, t := range strings.Split(joined, ",") {
		parts = append(parts, strings.TrimSpace(t))
	}
	return strings.Join(parts, ",")
}

func runC04(x *mc.X) {
	plan := mc.Pick(x, "plan", []string{"wide", "narrow-deep"})
	depth := 3
	reqs, varys := append(append([]c04Req{}, c04Reqs...), c04NoCache...), c04Varys
	if x.Tier() != "thorough" {
		varys = []string{"", "X-A", "X-A, X-B", "Accept-Encoding", "*"}
	}
	if plan == "narrow-deep" {
		depth, reqs, varys = 4, c04Narrow, c04NarrowVarys
	}
	if x.Tier() == "thorough" {
		depth++
	}
	w := world.New(world.Opt{})
	defer w.Close()
	var hist []string
	for step := 1; step <= depth; step++ {
		ri := x.Choose(fmt.Sprintf("step%d.request", step), len(reqs))
		x.Trace[len(x.Trace)-1].Desc = reqs[ri].name
		vary := mc.Pick(x, fmt.Sprintf("step%d.origin-vary", step), varys)
		if x.Tier() == "thorough" && plan == "wide" && step == 4 && (ri > 7 || vary == "x-a" || vary == "X-B, X-A" || vary == "X-A, Accept-Encoding") {
			x.Skip() // thorough: the fourth step of the wide plan uses reduced menus
		}
		h := H("Cache-Control", "max-age=100000")
		h = hdrIf(h, "Vary", vary)
		answer(w, RS{Status: 200, H: h})
		req := world.Req("GET", U)
		for _, kv := range reqs[ri].hdr {
			req.Header.Add(kv[0], kv[1])
		}
		o := w.Do(req)
		logObs(x, fmt.Sprintf("step %d: GET %s (origin would answer Vary: %q)", step, reqs[ri].name, vary), o)
		hist = append(hist, reqs[ri].name+"|"+vary)
		world.Advance(secs(1))
		if o.Panic != nil || o.Err != nil {
			return
		}
		x.State(fmt.Sprint(step), reqs[ri].name, obsClass(o), strings.Join(w.Conn.Keys(), "\n"), o.Tok)
		if len(o.Calls) > 0 || o.Tok == "" {
			continue // answered by the origin in this exchange
		}
		// served from the store: the token was minted for an earlier request
		tk := w.Origin.Toks[o.Tok]
		if tk == nil {
			x.Failf("unknown token served", "%s", o)
			return
		}
		storedVary := strings.Join(tk.Header.Values("Vary"), ", ")
		x.Nontrivial(fmt.Sprintf("reuse/vary=%s/req=%s", storedVary, reqs[ri].name))
		x.Note("served from store")
		x.Sample(map[string]any{"history": hist, "served_token_minted_for": tk.ReqHdr, "stored_vary": storedVary, "request": reqs[ri].hdr})
		if strings.TrimSpace(storedVary) == "*" {
			x.Failf("Vary: * response served without validation", "token %s (Vary: *) returned for %s", o.Tok, reqs[ri].name)
			return
		}
		for _, f := range strings.Split(storedVary, ",") {
			f = strings.TrimSpace(f)
			if f == "" {
				continue
			}
			a, b := varyClass(tk.ReqHdr, f), varyClass(req.Header, f)
			if a != b {
				x.Failf(fmt.Sprintf("wrong variant served: field %s stored-for=%q request=%q", http.CanonicalHeaderKey(f), clip(a), clip(b)),
					"response %s was selected by %s=%q (Vary: %s) but returned for a request with %s=%q; history %v", o.Tok, f, tk.ReqHdr.Values(f), storedVary, f, req.Header.Values(f), hist)
				return
			}
		}
	}
}

func clip(s string) string {
	if len(s) > 24 {
		return s[:24]
	}
	return s
}
