package checks

import (
	"bufio"
	"bytes"
	"fmt"
	"io"
	"net/http"
	"sort"
	"strings"
	"time"

	"verifharness/mc"
	"verifharness/world"
)

// C05 — cached responses are byte-faithful copies of the origin response.
func init() { register(&Check{ID: "C05", Run: runC05, ShardDepth: 3}) }

type c05Body struct {
	name string
	data []byte
}

func c05Bodies(tier string) []c05Body {
	all := make([]byte, 256)
	for i := range all {
		all[i] = byte(i)
	}
	big := bytes.Repeat([]byte("0123456789abcdef\r\n\x00\xff"), 64*1024/20+1)[:64*1024]
	bs := []c05Body{
		{"empty", []byte{}},
		{"hello", []byte("hello")},
		{"CRLF", []byte("\r\n")},
		{"LF LF CRLF CRLF", []byte("\n\n\r\n\r\n")},
		{"last-chunk text", []byte("0\r\n\r\n")},
		{"complete fake response", []byte("HTTP/1.1 200 OK\r\nContent-Length: 3\r\n\r\nabc")},
		{"fake metadata line", []byte("a\tb\tc\nHTTP/1.1 200 OK\r\n\r\n")},
		{"NUL bytes", []byte("\x00\x00a\x00")},
		{"all 256 byte values", all},
		{"chunk-looking", []byte("5\r\nhello\r\n0\r\n\r\n")},
		{"leading CRLF", []byte("\r\nbody after blank line")},
		{"trailing spaces no newline", []byte("x   \t")},
		{"64 KiB", big},
	}
	if tier == "thorough" {
		bs = append(bs, c05Body{"1 MiB", bytes.Repeat(big, 16)})
	}
	return bs
}

var c05Framings = []string{"content-length", "chunked", "chunked+trailers", "close-delimited", "http/1.0", "h2+length", "h2-nolength", "uncompressed"}

type c05Shape struct {
	name string
	h    [][2]string
	line string // status-line override suffix (reason phrase); "" = standard
	date string // "" = IMF-fixdate; "rfc850", "asctime": the obsolete formats a recipient must accept (RFC 9110 §5.6.7)
}

func c05Shapes() []c05Shape {
	many := [][2]string{}
	for i := 0; i < 100; i++ {
		many = append(many, [2]string{fmt.Sprintf("X-F%03d", i), fmt.Sprintf("v%d", i)})
	}
	return []c05Shape{
		{name: "plain", h: H("Content-Type", "text/plain")},
		{name: "multi-valued", h: H("Set-Cookie", "a=1", "Set-Cookie", "b=2; Path=/", "X-M", "one", "X-M", "two", "X-M", "one")},
		{name: "empty value", h: H("X-Empty", "", "X-After", "z")},
		{name: "obs-text", h: H("X-Obs", "caf\xe9 \xff")},
		{name: "8 KiB value", h: H("X-Long", strings.Repeat("v", 8192))},
		{name: "100 fields", h: many},
		{name: "custom reason", h: H("X-R", "1"), line: "Very Fine"},
		{name: "no reason", h: H("X-R", "2"), line: "-"},
		{name: "connection-named", h: H("Connection", "X-Hop, keep-alive", "X-Hop", "HOPMARK1", "Keep-Alive", "timeout=5, max=HOPMARK2")},
		{name: "two connection lines", h: H("Connection", "keep-alive", "Connection", "X-Hop2", "X-Hop2", "HOPMARK8", "Keep-Alive", "timeout=5, max=HOPMARK9")},
		{name: "upgrade+proxy", h: H("Upgrade", "HOPMARK3", "Proxy-Authenticate", "Basic realm=HOPMARK4", "Proxy-Authentication-Info", "HOPMARK5", "Proxy-Connection", "HOPMARK6", "Te", "HOPMARK7")},
		{name: "origin sends cache fields", h: H("Age", "3", "X-From-Cache", "1", "X-Httpcache-Status", "HIT")},
		{name: "no Date", h: H("X-NoDate", "1")},
		{name: "rfc850 Date", h: H("X-D", "850"), date: "rfc850"},
		{name: "asctime Date", h: H("X-D", "asc"), date: "asctime"},
		{name: "content-encoding kept", h: H("Content-Encoding", "gzip", "Content-Language", "en, fr", "Vary", "Accept-Encoding")},
		{name: "etag+lm", h: H("ETag", `W/"weak \"x\""`, "Last-Modified", "Mon, 01 Jan 1990 00:00:00 GMT", "Link", `<http://a/b>; rel="x", <c>; rel=y`)},
	}
}

// c05Wire renders the response as HTTP/1.x wire bytes.
func c05Wire(status int, shape c05Shape, framing string, body []byte, date string, tok string, ccv string) []byte {
	var b bytes.Buffer
	proto := "HTTP/1.1"
	if framing == "http/1.0" {
		proto = "HTTP/1.0"
	}
	reason := http.StatusText(status)
	switch shape.line {
	case "-":
		reason = ""
	case "":
	default:
		reason = shape.line
	}
	fmt.Fprintf(&b, "%s %d %s\r\n", proto, status, reason)
	for _, kv := range shape.h {
		fmt.Fprintf(&b, "%s: %s\r\n", kv[0], kv[1])
	}
	fmt.Fprintf(&b, "Cache-Control: %s\r\nX-Tok: %s\r\nX-Withdrawn: draft\r\nX-Nc: nc\r\n", ccv, tok)
	if shape.name != "no Date" {
		fmt.Fprintf(&b, "Date: %s\r\n", date)
	}
	switch framing {
	case "content-length", "h2+length":
		if status == 204 {
			b.WriteString("\r\n") // a 204 carries no Content-Length (RFC 9110 §8.6)
			break
		}
		fmt.Fprintf(&b, "Content-Length: %d\r\n\r\n", len(body))
		b.Write(body)
	case "chunked", "chunked+trailers":
		b.WriteString("Transfer-Encoding: chunked\r\n")
		if framing == "chunked+trailers" {
			b.WriteString("Trailer: X-Trail\r\n")
		}
		b.WriteString("\r\n")
		for off := 0; off < len(body); {
			n := min(len(body)-off, 7+off%4093)
			fmt.Fprintf(&b, "%x\r\n", n)
			b.Write(body[off : off+n])
			b.WriteString("\r\n")
			off += n
		}
		b.WriteString("0\r\n")
		if framing == "chunked+trailers" {
			b.WriteString("X-Trail: t1\r\n")
		}
		b.WriteString("\r\n")
	case "close-delimited":
		b.WriteString("Connection: close\r\n\r\n")
		b.Write(body)
	default: // http/1.0, h2-nolength, uncompressed: no length, body to EOF
		b.WriteString("\r\n")
		b.Write(body)
	}
	return b.Bytes()
}

var c05Hop = map[string]bool{"Connection": true, "Keep-Alive": true, "Te": true, "Transfer-Encoding": true, "Upgrade": true, "Proxy-Authenticate": true,
	"Proxy-Authentication-Info": true, "Proxy-Authorization": true, "Proxy-Connection": true, "X-Hop": true, "Trailer": true}

func runC05(x *mc.X) {
	bodies := c05Bodies(x.Tier())
	bi := x.Choose("body", len(bodies))
	x.Trace[len(x.Trace)-1].Desc = bodies[bi].name
	framing := mc.Pick(x, "framing", c05Framings)
	shapes := c05Shapes()
	si := x.Choose("header-shape", len(shapes))
	x.Trace[len(x.Trace)-1].Desc = shapes[si].name
	status := mc.Pick(x, "status", []int{200, 203, 204, 301, 404, 410})
	backend := mc.Pick(x, "backend", []string{"rec", "memcache", "fscache", "fscache-enc"})
	serve := "hit"
	if framing == "chunked+trailers" || framing == "close-delimited" || framing == "content-length" {
		serve = mc.Pick(x, "served-as", []string{"hit", "stale-while-revalidate"}) // the SWR path hands out a copy
	}
	body := bodies[bi].data
	if status == 204 && (len(body) > 0 || framing != "content-length") {
		x.Skip()
	}
	shape := shapes[si]
	// a logger enabled at debug level sees every stored and served response; none of that may show in what the caller gets
	logger := ""
	if backend == "rec" || backend == "memcache" || x.Tier() == "thorough" {
		logger = mc.Pick(x, "logger", []string{"", "text", "json"})
	}
	w, _, cleanup := c09WorldL(backend, logger)
	defer cleanup()

	unrelated := ((shape.name == "multi-valued" || shape.name == "etag+lm") && framing == "content-length" || x.Tier() == "thorough") && x.Choose("between-unrelated-exchanges", 2) == 1
	if unrelated {
		primeUnrelated(x, w)
	}
	var originHdr http.Header
	var originBody []byte
	originTrailer := false
	phase, curTok := "first", "tokA"
	answerFn(w, func(o *world.Origin, c *world.Call) (*http.Response, error) {
		if phase != "replace" && (c.Header.Get("If-None-Match") != "" || c.Header.Get("If-Modified-Since") != "") {
			return o.Respond(c, RS{Status: 304, NoTok: true, H: H("X-Merged", "m", "Cache-Control", "max-age=1000", "X-Merged-List", "one", "X-Merged-List", "two", "X-Merged-List", "one", "X-Withdrawn", "",
				// round 6: the 304 nominates a field of its own as hop-by-hop; neither may reach the stored response or a later hit
				"Connection", "X-Via-304, keep-alive", "X-Via-304", "HOPMARK304", "Keep-Alive", "timeout=5, max=HOPMARK305")}), nil
		}
		body := body
		if phase == "replace" {
			// the representation changed: a shorter body, same framing and header shape
			body, curTok = []byte("new"), "tokB"
			if len(bodies[bi].data) == 0 || status == 204 {
				body = []byte{}
			}
		}
		ccv := "max-age=1000"
		if serve != "hit" {
			ccv = `max-age=5, stale-while-revalidate=100000, no-cache="X-Nc"` // X-Nc is not replayed without validation (C02) …
		}
		date := httpDate(c.At)
		switch shape.date {
		case "rfc850":
			date = c.At.UTC().Format("Monday, 02-Jan-06 15:04:05") + " GMT"
		case "asctime":
			date = c.At.UTC().Format(time.ANSIC)
		}
		wire := c05Wire(status, shape, framing, body, date, curTok, ccv)
		resp, err := http.ReadResponse(bufio.NewReader(bytes.NewReader(wire)), c.Req)
		if err != nil {
			panic("harness: origin wire does not parse: " + err.Error())
		}
		switch framing {
		case "h2+length", "h2-nolength":
			resp.Proto, resp.ProtoMajor, resp.ProtoMinor = "HTTP/2.0", 2, 0
			resp.Close = false
		case "uncompressed":
			resp.Uncompressed = true
			resp.Close = false
			resp.Header.Del("Content-Encoding")
		}
		if phase != "swr" { // the background refresh must not move the expectation for the copy already handed out
			originHdr = resp.Header.Clone()
			originBody = body
			originTrailer = framing == "chunked+trailers"
		}
		return resp, nil
	})
	o1 := get(w, U)
	logObs(x, fmt.Sprintf("GET (origin: %d, body %q, %s, headers %q)", status, bodies[bi].name, framing, shape.name), o1)
	cls := fmt.Sprintf("%s/%s/%d/%s", framing, shape.name, status, backend)
	x.State(cls, bodies[bi].name, obsClass(o1))
	if o1.Panic != nil || o1.Err != nil {
		return // C10
	}
	if !bytes.Equal(o1.Body, originBody) || o1.BodyErr != nil {
		x.Failf("miss forwards a different body ("+framing+")", "origin body %d bytes, client read %d bytes (err %v)", len(originBody), len(o1.Body), o1.BodyErr)
	}
	checkStoreNoHop := func() {
		if w.Conn == nil {
			return
		}
		for _, k := range w.Conn.Keys() {
			v, _ := w.Conn.Peek(k)
			if i := bytes.Index(v, []byte("HOPMARK")); i >= 0 && !(bytes.Contains(v[max(0, i-12):i], []byte("X-Hop")) && len(originHdr.Values("Connection")) == 0) {
				x.Failf("hop-by-hop field stored", "store value under %q contains %q", k, v[max(0, i-40):min(len(v), i+20)])
			}
		}
	}
	checkStoreNoHop()
	if unrelated {
		// another resource is fetched and stored before this one is read back: whatever buffers the first store used
		// belong to the backend now
		saved := w.Origin.Handler
		answer(w, RS{Status: 200, H: H("Cache-Control", "max-age=1000", "X-Other", "o")}) // a smaller entry …
		logObs(x, "GET of another resource (stored)", get(w, "http://example.com/another-resource"))
		answer(w, RS{Status: 200, H: H("Cache-Control", "max-age=1000", "X-Other", strings.Repeat("o", 300)), Pad: len(body) + 64}) // … and a larger one
		logObs(x, "GET of a third resource (stored)", get(w, "http://example.com/a-third-resource"))
		w.Origin.Handler = saved
	}
	had304 := false // the validation round was really answered with a 304 (the stored response has a validator)
	checkHit := func(o *world.Obs, what string, merged bool) {
		if o.Panic != nil || o.Err != nil {
			return
		}
		if len(o.Calls) == 0 && len(o.BgCalls) == 0 && o.HdrTok != curTok {
			x.Failf("a response served from the store is not the one stored for this resource", "%s: no origin contact, expected the stored %s, got %s", what, curTok, o)
			return
		}
		if o.HdrTok != curTok || len(o.Calls) != 0 {
			x.Note(what + ": not a hit")
			return
		}
		if originTrailer && o.Trailer.Get("X-Trail") != "t1" {
			x.Failf("trailer field lost on a response served from the store ("+o.CacheStatus+")", "%s: origin sent trailer X-Trail: t1, the served response has trailer %v", what, o.Trailer)
		}
		x.Nontrivial("hit/" + framing + "/" + shape.name + "/" + backend)
		if o.Status != status {
			x.Failf("hit with a different status code", "%s: origin %d, hit %d", what, status, o.Status)
		}
		if !bytes.Equal(o.Body, originBody) || o.BodyErr != nil {
			x.Failf(fmt.Sprintf("hit body differs from the origin body (%s, body %s)", framing, bodies[bi].name), "%s: origin body %d bytes %q..., hit body %d bytes %q... (read error %v)", what, len(originBody), clipB(originBody), len(o.Body), clipB(o.Body), o.BodyErr)
		}
		exp := originHdr.Clone()
		// hop-by-hop = the fixed list plus whatever the response, as handed to the cache, nominates in Connection
		hop := map[string]bool{}
		for k := range c05Hop {
			hop[k] = k != "X-Hop"
		}
		for _, line := range originHdr.Values("Connection") {
			for _, f := range strings.Split(line, ",") {
				hop[http.CanonicalHeaderKey(strings.TrimSpace(f))] = true
			}
		}
		for k := range exp {
			if hop[k] {
				delete(exp, k)
			}
		}
		got := o.Header.Clone()
		for _, k := range []string{"Age", "X-Httpcache-Status", "X-From-Cache"} {
			got.Del(k)
			exp.Del(k)
		}
		if exp.Get("Date") == "" {
			got.Del("Date")
		}
		if exp.Get("Content-Length") == "" {
			if cl := got.Get("Content-Length"); cl != "" && cl != fmt.Sprint(len(originBody)) {
				x.Failf("hit carries a wrong Content-Length", "%s: Content-Length %q for a body of %d bytes", what, cl, len(originBody))
			}
			got.Del("Content-Length")
		}
		if merged {
			hop["X-Via-304"] = true // nominated by the 304's own Connection field
			// fields carried by the 304 replace the stored ones (C08)
			if l := got.Values("X-Merged-List"); had304 && strings.Join(l, "|") != "one|two|one" {
				x.Failf("a field carried by the 304 on several lines is not replayed with all of them", "%s: X-Merged-List %q, the 304 carried [one two one]", what, l)
			}
			if v, present := got["X-Withdrawn"]; had304 && (!present || strings.Join(v, "|") != "") {
				x.Failf("a field that the 304 carries with an empty value keeps its stored value", "%s: X-Withdrawn %q (present=%v), the 304 carried it empty", what, v, present)
			}
			for _, k := range []string{"X-Merged", "X-Merged-List", "X-Withdrawn", "Date", "Cache-Control"} {
				got.Del(k)
				exp.Del(k)
			}
		}
		for k := range got {
			if hop[k] {
				x.Failf("hop-by-hop field replayed on a hit: "+k, "%s: %s: %q", what, k, got[k])
				delete(got, k)
			}
		}
		if d := hdrDiff(exp, got); d != "" {
			x.Failf("hit header differs from the origin header ("+shape.name+", "+framing+")", "%s: %s", what, d)
		}
		for k, vs := range o.Header {
			for _, v := range vs {
				if strings.Contains(v, "HOPMARK") && hop[k] {
					x.Failf("hop-by-hop value replayed on a hit", "%s: %s: %q", what, k, v)
				}
			}
		}
	}
	if serve != "hit" {
		world.Advance(secs(10))
		phase = "swr"
		o2 := get(w, U)
		logObs(x, "GET (stale, served under stale-while-revalidate)", o2)
		if o2.Err == nil && o2.Panic == nil && o2.CacheStatus == "STALE" && o2.HdrTok == "tokA" {
			o2.Calls = nil
			if originHdr != nil {
				originHdr.Del("X-Nc") // … so it is absent from the stale response (not judged here)
				o2.Header.Del("X-Nc")
			}
			checkHit(o2, "stale-while-revalidate response", false)
			// … but it is still a stored field: once the response has been validated it is there again
			world.Advance(secs(2))
			o3 := get(w, U, "Cache-Control", "no-cache")
			logObs(x, "GET no-cache after the background revalidation", o3)
			if o3.Err == nil && o3.Panic == nil && o3.HdrTok == "tokA" && o3.Header.Get("X-Nc") != "nc" {
				x.Failf("a field named by a qualified no-cache is lost from the stored response after a stale-while-revalidate serve", "validated response (%s) carries X-Nc=%q, the origin sent \"nc\"", o3.CacheStatus, o3.Header.Get("X-Nc"))
			}
		}
		checkStoreNoHop()
		x.Sample(map[string]any{"body": bodies[bi].name, "framing": framing, "header_shape": shape.name, "status": status, "backend": backend, "served_as": serve, "observed": o2.String()})
		return
	}
	world.Advance(secs(5))
	o2 := get(w, U)
	logObs(x, "GET (expect hit)", o2)
	checkHit(o2, "first hit", false)
	// a validation round (request no-cache -> 304 merge) and a further hit
	world.Advance(secs(5))
	o3 := get(w, U, "Cache-Control", "no-cache")
	logObs(x, "GET no-cache (origin: 304)", o3)
	had304 = len(o3.Calls) == 1 && o3.Calls[0].RespCode == 304
	if v := o3.Header.Values("X-Via-304"); had304 && o3.HdrTok == "tokA" && len(v) > 0 {
		x.Failf("hop-by-hop field of the 304 replayed on the revalidated response", "X-Via-304: %q (nominated by the 304's Connection field)", v)
	}
	if o3.Err == nil && o3.Panic == nil && o3.HdrTok == "tokA" {
		if !bytes.Equal(o3.Body, originBody) {
			x.Failf(fmt.Sprintf("revalidated body differs from the origin body (%s)", framing), "origin %d bytes, got %d bytes", len(originBody), len(o3.Body))
		}
	}
	world.Advance(secs(5))
	o4 := get(w, U)
	logObs(x, "GET (expect hit after the 304)", o4)
	checkHit(o4, "hit after 304", true)
	checkStoreNoHop()
	// the stored representation is replaced by a shorter one (request no-cache, origin answers 200), then served again
	phase = "replace"
	world.Advance(secs(5))
	o5 := get(w, U, "Cache-Control", "no-cache")
	logObs(x, "GET no-cache (origin: 200 with a shorter body)", o5)
	world.Advance(secs(5))
	o6 := get(w, U)
	logObs(x, "GET (expect hit on the replacement)", o6)
	checkHit(o6, "hit after replacement", false)
	x.Sample(map[string]any{"body": bodies[bi].name, "framing": framing, "header_shape": shape.name, "status": status, "backend": backend, "first_hit": o2.String(), "hit_after_304": o4.String()})
}

func clipB(b []byte) []byte {
	if len(b) > 40 {
		return b[:40]
	}
	return b
}

func hdrDiff(exp, got http.Header) string {
	var d []string
	keys := map[string]bool{}
	for k := range exp {
		keys[k] = true
	}
	for k := range got {
		keys[k] = true
	}
	ks := make([]string, 0, len(keys))
	for k := range keys {
		ks = append(ks, k)
	}
	sort.Strings(ks)
	for _, k := range ks {
		a, b := exp[k], got[k]
		if strings.Join(a, "\x00") != strings.Join(b, "\x00") {
			d = append(d, fmt.Sprintf("%s: origin %q, hit %q", k, clipS(a), clipS(b)))
		}
	}
	return strings.Join(d, "; ")
}

func clipS(v []string) []string {
	out := make([]string, len(v))
	for i, s := range v {
		if len(s) > 60 {
			s = s[:60] + "…"
		}
		out[i] = s
	}
	return out
}

var _ = io.EOF
