package checks

import (
	"encoding/json"
	"fmt"
	"io"
	"net/http"
	"slices"
	"sort"
	"strings"
	"testing"
	"testing/synctest"
	"time"

	"verifharness/mc"
	"verifharness/world"
)

// C19 — store footprint is bounded by the distinct resources and variants requested (BFS to a fixpoint).
func init() { register(&Check{ID: "C19", Custom: customC19, ReplayCustom: replayC19}) }

type c19Ev struct {
	Method string `json:"m"`
	URL    string `json:"u"`
	A      string `json:"a"`      // request header X-A ("" = absent)
	Origin string `json:"origin"` // long | stale | swr | post200 | post500
	Vary   string `json:"vary"`
	Val    string `json:"val"`            // answer to a conditional request: 304 | 200
	F      string `json:"f,omitempty"`    // request field that carries A (default X-A)
	Deco   bool   `json:"deco,omitempty"` // the upstream sends a modified copy of the request (adds a changing Authorization) and resp.Request points to it
	Nest   bool   `json:"nest,omitempty"` // while the conditional request is at the origin, a POST for the same URI completes through the same transport
}

func (e c19Ev) String() string {
	if e.Method == "POST" {
		return fmt.Sprintf("POST %s->%s", shortURL(e.URL), strings.TrimPrefix(e.Origin, "post"))
	}
	if e.Method == "EVICT" {
		return "EVICT one stored response"
	}
	n := ""
	if e.Nest {
		n = " +POST meanwhile"
	}
	if e.Deco {
		n += " decorating-upstream"
	}
	return fmt.Sprintf("GET %s %s=%q [%s vary=%q cond->%s%s]", shortURL(e.URL), map[bool]string{true: "X-A", false: e.F}[e.F == ""], e.A, e.Origin, e.Vary, e.Val, n)
}

func shortURL(u string) string {
	if u == U {
		return "u"
	}
	return "u'"
}

// c19Apply performs one exchange with a deterministic origin (no counters, no clock advance).
func c19Apply(w *world.W, e c19Ev) *world.Obs {
	if e.Method == "EVICT" {
		// an external clean-up (the documented way to bound a cache directory) removes one stored response: the
		// first key in sorted order that does not hold an index
		for _, k := range w.Conn.Keys() {
			if v, _ := w.Conn.Peek(k); len(v) > 0 && v[0] != '[' {
				_ = w.Conn.Delete(k)
				break
			}
		}
		return &world.Obs{}
	}
	stale := httpDate(w.Epoch.Add(-secs(1000)))
	answerFn(w, func(o *world.Origin, c *world.Call) (*http.Response, error) {
		if c.Method == "POST" {
			st := 200
			if e.Origin == "post500" {
				st = 500
			}
			var h [][2]string
			if e.Origin == "post200loc" {
				// names the other resource u in a non-canonical but equivalent spelling
				h = H("Location", "http://EXAMPLE.com:80/%72", "Content-Location", "http://example.com:80/r#frag")
			}
			return o.Respond(c, RS{Status: st, NoTok: true, Body: []byte("post"), H: h}), nil
		}
		cond := c.Header.Get("If-None-Match") != "" || c.Header.Get("If-Modified-Since") != ""
		if cond && e.Nest {
			// an unsafe request for the same URI is answered 200 while this validation is in flight
			pr := world.Req("POST", e.URL)
			if resp, err := w.RT.RoundTrip(pr); err == nil && resp != nil && resp.Body != nil {
				_, _ = io.Copy(io.Discard, resp.Body)
				_ = resp.Body.Close()
			}
		}
		var h [][2]string
		switch e.Origin {
		case "long":
			h = H("Cache-Control", "max-age=100000")
		case "stale":
			h = H("Cache-Control", "max-age=5", "Date", stale)
		case "swr":
			h = H("Cache-Control", "max-age=5, stale-while-revalidate=1000000", "Date", stale)
		}
		h = append(h, [2]string{"ETag", `"e"`})
		h = hdrIf(h, "Vary", e.Vary)
		if cond && e.Val == "304" {
			return o.Respond(c, RS{Status: 304, NoTok: true, Body: []byte{}, H: h}), nil
		}
		a := c.Header.Get("X-A")
		body := fmt.Sprintf("B|%s|A=%s|%s|%s", c.URL, a, e.Origin, e.Vary)
		return o.Respond(c, RS{Status: 200, NoTok: true, Body: []byte(body), H: h}), nil
	})
	req := world.Req(e.Method, e.URL)
	if e.A != "" {
		f := e.F
		if f == "" {
			f = "X-A"
		}
		req.Header.Set(f, e.A)
	}
	w.Origin.Decorate = e.Deco
	defer func() { w.Origin.Decorate = false }()
	return w.Do(req)
}

type c19Foot struct {
	keys     int
	maxIndex int // largest number of entries in any stored index
	bytes    int
	snapshot string
}

func c19Measure(w *world.W) c19Foot {
	f := c19Foot{snapshot: w.Conn.Snapshot()}
	for _, k := range w.Conn.Keys() {
		v, _ := w.Conn.Peek(k)
		f.keys++
		f.bytes += len(v)
		var arr []json.RawMessage
		if len(v) > 0 && v[0] == '[' && json.Unmarshal(v, &arr) == nil && len(arr) > f.maxIndex {
			f.maxIndex = len(arr)
		}
	}
	return f
}

// c19Run replays path on a fresh transport in a fresh bubble (every timestamp equals the bubble epoch).
func c19Run(t *testing.T, path []c19Ev, pump int) (foot c19Foot, pumped []c19Foot, leak string) {
	return c19RunCycle(t, path, pump, 1)
}

// c19RunCycle replays path, then repeats its last cycleLen exchanges pump more times, measuring after each repetition.
func c19RunCycle(t *testing.T, path []c19Ev, pump, cycleLen int) (foot c19Foot, pumped []c19Foot, leak string) {
	synctest.Test(t, func(t *testing.T) {
		w := world.New(world.Opt{})
		defer w.Close()
		indexOf := map[string]string{} // URL -> key of its index, as observed in GET exchanges
		for i, e := range path {
			var before map[string][]byte
			if e.Method == "POST" {
				before = map[string][]byte{}
				for _, k := range w.Conn.Keys() {
					before[k], _ = w.Conn.Peek(k)
				}
			}
			o := c19Apply(w, e)
			if e.Method == "GET" && len(o.Ops) > 0 && o.Ops[0].Kind == "get" {
				indexOf[e.URL] = o.Ops[0].Key
			}
			invalidated := ""
			switch e.Origin {
			case "post200":
				invalidated = indexOf[e.URL]
			case "post200loc":
				invalidated = indexOf[U] // named by Location / Content-Location
			}
			if invalidated != "" && leak == "" && before[invalidated] != nil {
				// invalidation: the index of the invalidated URI and every id it listed must be gone
				idx := invalidated
				var refs []struct {
					ID string `json:"id"`
				}
				if json.Unmarshal(before[idx], &refs) == nil {
					gone := append([]string{idx}, nil...)
					for _, r := range refs {
						if r.ID != "" {
							gone = append(gone, r.ID)
						}
					}
					for _, k := range gone {
						if _, still := w.Conn.Peek(k); still {
							if _, was := before[k]; was {
								leak = fmt.Sprintf("after step %d (%s) key %q, listed by the invalidated index, is still in the store", i+1, e, k)
							}
						}
					}
				}
			}
		}
		foot = c19Measure(w)
		if len(path) >= cycleLen && cycleLen > 0 {
			cycle := path[len(path)-cycleLen:]
			for i := 0; i < pump; i++ {
				for _, ev := range cycle {
					c19Apply(w, ev)
				}
				pumped = append(pumped, c19Measure(w))
			}
		}
	})
	return
}

// c19Drain replays path and then invalidates every URI of the alphabet with a successful POST; it returns the
// keys that are still stored afterwards. Nothing is assumed about key or index formats.
func c19Drain(t *testing.T, path []c19Ev, urls []string) (left []string) {
	synctest.Test(t, func(t *testing.T) {
		w := world.New(world.Opt{})
		defer w.Close()
		for _, e := range path {
			c19Apply(w, e)
		}
		for _, u := range urls {
			c19Apply(w, c19Ev{Method: "POST", URL: u, Origin: "post200"})
		}
		left = w.Conn.Keys()
	})
	return
}

type c19Scenario struct {
	Name   string
	Events []c19Ev
}

func c19Scenarios(tier string) []c19Scenario {
	const U2 = "http://example.com/other"
	var scs []c19Scenario
	get := func(u, a, origin, vary, val string) c19Ev {
		return c19Ev{Method: "GET", URL: u, A: a, Origin: origin, Vary: vary, Val: val}
	}
	post := func(u string, ok bool) c19Ev {
		if ok {
			return c19Ev{Method: "POST", URL: u, Origin: "post200"}
		}
		return c19Ev{Method: "POST", URL: u, Origin: "post500"}
	}
	as := []string{"1", "2"}
	origins := []string{"long", "stale", "swr"}
	// one scenario per (origin kind, pair of Vary specs): both variants, both validation answers, plus invalidation
	varyPairs := [][2]string{{"X-A", "*"}, {"X-A", ""}, {"X-A", "X-B"}, {"*", ""}, {"X-A", "X-A"}, {"X-B, X-A", "X-A"}, {"X-A, *", "X-A, *"}, {"X-A, *", "X-A"},
		// a field value the index format cannot hold verbatim (obs-text): repeated identical requests must still not add to the store
		{"X-A, X-\xff", "*, X-\xff"}}
	for _, og := range origins {
		for _, vp := range varyPairs {
			var evs []c19Ev
			vs := []string{vp[0]}
			if vp[1] != vp[0] {
				vs = append(vs, vp[1])
			}
			for vi, v := range vs {
				for _, a := range as {
					evs = append(evs, get(U, a, og, v, "304"))
				}
				if og != "long" {
					evs = append(evs, get(U, "1", og, v, "200"))
					nest := get(U, "1", og, v, "304")
					nest.Nest = true
					evs = append(evs, nest)
					if vi == 0 {
						nest.Val = "200"
						evs = append(evs, nest)
					}
				}
			}
			evs = append(evs, post(U, true), post(U, false), get(U2, "", "long", "", "304"), c19Ev{Method: "POST", URL: U2, Origin: "post200loc"})
			if og == "long" {
				evs = append(evs, c19Ev{Method: "EVICT", URL: U})
			}
			scs = append(scs, c19Scenario{fmt.Sprintf("%s vary{%q,%q}", og, vp[0], vp[1]), evs})
		}
	}
	// a list-valued request field with bytes the index cannot hold verbatim, and an upstream that decorates a copy of the request
	for _, og := range origins {
		var evs []c19Ev
		for _, a := range []string{"en", "caf\xe9, en", "\xff"} {
			ev := get(U, a, og, "Accept-Language", "304")
			ev.F = "Accept-Language"
			evs = append(evs, ev)
			if og != "long" {
				ev.Val = "200"
				evs = append(evs, ev)
			}
		}
		evs = append(evs, post(U, true))
		scs = append(scs, c19Scenario{fmt.Sprintf("%s list-valued field with obs-text", og), evs})
		evs = nil
		for _, a := range as {
			for _, v := range []string{"Authorization", "Authorization, X-A", ""} {
				ev := get(U, a, og, v, "304")
				ev.Deco = true
				evs = append(evs, ev)
			}
		}
		evs = append(evs, post(U, true))
		scs = append(scs, c19Scenario{fmt.Sprintf("%s decorating upstream", og), evs})
	}
	// a URI whose query carries raw bytes >= 0x80 (valid UTF-8 text with a 0x80 byte in it)
	{
		const U3 = "http://example.com/r?q=\xe2\x80\xa6"
		var evs []c19Ev
		for _, v := range []string{"*", "X-A", ""} {
			evs = append(evs, get(U3, "1", "long", v, "304"), get(U3, "1", "stale", v, "200"))
		}
		evs = append(evs, post(U3, true))
		scs = append(scs, c19Scenario{"URI with raw non-ASCII query bytes", evs})
	}
	// mixed origin kinds over one Vary spec
	for _, v := range []string{"X-A", "*", ""} {
		var evs []c19Ev
		for _, og := range origins {
			for _, a := range []string{"", "1"} {
				evs = append(evs, get(U, a, og, v, "304"))
			}
		}
		evs = append(evs, get(U, "1", "stale", v, "200"), post(U, true))
		scs = append(scs, c19Scenario{fmt.Sprintf("mixed origins vary %q", v), evs})
	}
	if tier == "thorough" {
		// the full product on one URI
		var evs []c19Ev
		for _, og := range origins {
			for _, v := range []string{"", "X-A", "X-B", "*"} {
				for _, a := range []string{"", "1", "2"} {
					for _, val := range []string{"304", "200"} {
						if og == "long" && val == "200" {
							continue
						}
						evs = append(evs, get(U, a, og, v, val))
					}
				}
			}
		}
		evs = append(evs, post(U, true), post(U, false), get(U2, "1", "long", "X-A", "304"), post(U2, true))
		scs = append(scs, c19Scenario{"full product", evs})
	}
	return scs
}

func customC19(t *testing.T, e *mc.Explorer) *mc.ShardResult {
	start := time.Now()
	res := &mc.ShardResult{Property: "C19", Tier: e.Tier, Shard: e.Shard, Shards: e.Shards, Exhaustive: true, Nontrivial: map[string]int{}, Notes: map[string]int{}, Extra: map[string]any{}}
	viol := map[string]*mc.Violation{}
	capStates := 4000
	if e.Tier == "thorough" {
		capStates = 60000
	}
	fix := 0
	for si, sc := range c19Scenarios(e.Tier) {
		if si%e.Shards != e.Shard {
			continue
		}
		// guard: 4 x (Vary specs + 1) x variants index entries per URI
		varys, variants := map[string]bool{}, map[string]bool{}
		for _, ev := range sc.Events {
			varys[ev.Vary] = true
			variants[ev.A] = true
		}
		guard := 2 * (len(varys) + 1) * len(variants)
		urlSet := map[string]bool{}
		var urls []string
		for _, ev := range sc.Events {
			if !urlSet[ev.URL] {
				urlSet[ev.URL] = true
				urls = append(urls, ev.URL)
			}
		}
		seen := map[string]bool{}
		f0, _, _ := c19Run(t, nil, 0)
		seen[f0.snapshot] = true
		leftOf := map[string][]string{f0.snapshot: nil}
		frontier := [][]c19Ev{nil}
		maxKeys, maxIdx, depth := 0, 0, 0
		bad, capped := false, false
		for len(frontier) > 0 && !bad {
			if !e.Deadline.IsZero() && time.Now().After(e.Deadline) || len(seen) > capStates {
				capped = true
				break
			}
			cur := frontier[0]
			frontier = frontier[1:]
			curFoot, _, _ := c19Run(t, cur, 0)
			curSnap := curFoot.snapshot
			for _, ev := range sc.Events {
				path := append(append([]c19Ev{}, cur...), ev)
				foot, _, leak := c19Run(t, path, 0)
				res.Executions++
				res.Transitions += int64(len(path))
				if leak != "" {
					c19Add(viol, e, "invalidation leaves a listed key behind", leak, sc, path)
					bad = true
					break
				}
				if foot.maxIndex > guard || foot.keys > 2*(guard+1) {
					// confirm by pumping: the last event three more times must grow the footprint strictly each time
					// the event cycle that ends the path (length 1, 2 or 3) is repeated three more times
					for cl := 1; cl <= 3 && cl <= len(path) && !bad; cl++ {
						_, pumped, _ := c19RunCycle(t, path, 3, cl)
						grow := len(pumped) == 3
						prev := foot
						for _, p := range pumped {
							if !(p.maxIndex > prev.maxIndex || p.keys > prev.keys) {
								grow = false
							}
							prev = p
						}
						if grow {
							var cyc []string
							for _, ce := range path[len(path)-cl:] {
								cyc = append(cyc, c19EvClass(ce))
							}
							c19Add(viol, e, fmt.Sprintf("unbounded growth: repeating %s", strings.Join(cyc, " ; ")), fmt.Sprintf("after %v the largest index has %d entries and the store %d keys (guard %d); repeating the last %d exchange(s) three more times gives %d/%d/%d index entries and %d/%d/%d keys",
								path, foot.maxIndex, foot.keys, guard, cl, pumped[0].maxIndex, pumped[1].maxIndex, pumped[2].maxIndex, pumped[0].keys, pumped[1].keys, pumped[2].keys), sc, path)
							bad = true
						}
					}
					if bad {
						break
					}
				}
				// keys that no invalidation can reach any more: tolerated (and bounded by the fixpoint) when a
				// replacement orphaned them, a violation when the exchange that produced them contains an invalidation
				left, known := leftOf[foot.snapshot]
				if !known {
					left = c19Drain(t, path, urls)
					leftOf[foot.snapshot] = left
					res.Executions++
				}
				if ev.Nest || ev.Origin == "post200" || ev.Origin == "post200loc" {
					var fresh []string
					for _, k := range left {
						if !slices.Contains(leftOf[curSnap], k) {
							fresh = append(fresh, k)
						}
					}
					if len(fresh) > 0 {
						c19Add(viol, e, "an exchange containing an invalidation leaves keys behind that no invalidation reaches", fmt.Sprintf("after %v the store holds %q: a successful POST to each of %v does not remove them, and before the last exchange (which contains an invalidation) every such key was still removable", path, fresh, urls), sc, append(append([]c19Ev{}, path...), c19Ev{Method: "DRAIN"}))
						bad = true
						break
					}
				}
				if !seen[foot.snapshot] {
					seen[foot.snapshot] = true
					e.AddState(sc.Name, foot.snapshot)
					frontier = append(frontier, path)
					depth = max(depth, len(path))
					maxKeys, maxIdx = max(maxKeys, foot.keys), max(maxIdx, foot.maxIndex)
				}
			}
		}
		if capped {
			res.Exhaustive = false
			res.Notes["scenario stopped at the state cap / deadline before a fixpoint"]++
		} else if !bad {
			fix++
			res.Nontrivial[sc.Name]++
		}
		res.MaxDepth = max(res.MaxDepth, depth)
		if len(res.Samples) < 4 || capped || maxIdx > guard {
			res.Samples = append(res.Samples, map[string]any{"scenario": sc.Name, "events": len(sc.Events), "reachable_store_states": len(seen), "fixpoint": !bad && !capped, "diameter": depth, "max_keys": maxKeys, "max_index_entries": maxIdx, "guard": guard})
		}
		res.Notes[fmt.Sprintf("max index entries %d", maxIdx)]++
	}
	// ---- second pass, with the clock running: every cycle of one or two events of a scenario is repeated 12
	// times with one second between exchanges (timestamps differ, so there is no fixpoint to reach); the
	// footprint after 4, 8 and 12 repetitions must not grow strictly.
	cycles := 0
	for si, sc := range c19Scenarios(e.Tier) {
		if si%e.Shards != e.Shard {
			continue
		}
		var cyc [][]c19Ev
		for _, a := range sc.Events {
			cyc = append(cyc, []c19Ev{a})
			for _, b := range sc.Events {
				if a != b {
					cyc = append(cyc, []c19Ev{a, b})
				}
			}
		}
		for _, cy := range cyc {
			if !e.Deadline.IsZero() && time.Now().After(e.Deadline) {
				res.Exhaustive = false
				break
			}
			var f [3]c19Foot
			synctest.Test(t, func(t *testing.T) {
				w := world.New(world.Opt{})
				defer w.Close()
				for rep := 1; rep <= 12; rep++ {
					for _, ev := range cy {
						c19Apply(w, ev)
						world.Advance(secs(1))
					}
					if rep%4 == 0 {
						f[rep/4-1] = c19Measure(w)
					}
				}
			})
			cycles++
			res.Executions++
			res.Transitions += int64(12 * len(cy))
			if (f[1].maxIndex > f[0].maxIndex && f[2].maxIndex > f[1].maxIndex) || (f[1].keys > f[0].keys && f[2].keys > f[1].keys) {
				var names []string
				for _, ev := range cy {
					names = append(names, c19EvClass(ev))
				}
				path := append([]c19Ev{{Method: "CLOCK"}}, cy...)
				c19Add(viol, e, "unbounded growth with the clock running: repeating "+strings.Join(names, " ; "),
					fmt.Sprintf("repeating %v with one second between exchanges: after 4/8/12 repetitions the largest index has %d/%d/%d entries and the store %d/%d/%d keys", cy, f[0].maxIndex, f[1].maxIndex, f[2].maxIndex, f[0].keys, f[1].keys, f[2].keys), sc, path)
			}
		}
	}
	res.Extra["clocked_cycles_pumped"] = cycles
	sigs := make([]string, 0, len(viol))
	for s := range viol {
		sigs = append(sigs, s)
	}
	sort.Strings(sigs)
	for _, s := range sigs {
		res.Violations = append(res.Violations, viol[s])
	}
	res.Extra["scenarios_run_to_fixpoint"] = fix
	res.WallS = time.Since(start).Seconds()
	return res
}

func c19EvClass(ev c19Ev) string {
	if ev.Method == "POST" {
		return "POST"
	}
	if ev.Method == "EVICT" {
		return "EVICT"
	}
	return fmt.Sprintf("GET [%s vary=%q cond->%s]", ev.Origin, ev.Vary, ev.Val)
}

func c19Add(viol map[string]*mc.Violation, e *mc.Explorer, sig, msg string, sc c19Scenario, path []c19Ev) {
	if v, ok := viol[sig]; ok {
		v.Count++
		return
	}
	detail, _ := json.Marshal(path)
	viol[sig] = &mc.Violation{Property: "C19", Signature: sig, Count: 1, Shard: e.Shard, Choices: []int{}, Message: "scenario " + sc.Name + ": " + msg,
		Trace: []mc.Pt{{Label: "replay", Desc: string(detail)}}}
}

func replayC19(t *testing.T, v *mc.Violation) bool {
	var path []c19Ev
	for _, p := range v.Trace {
		if p.Label == "replay" {
			_ = json.Unmarshal([]byte(p.Desc), &path)
		}
	}
	if len(path) > 0 && path[0].Method == "CLOCK" {
		cy := path[1:]
		var f [3]c19Foot
		synctest.Test(t, func(t *testing.T) {
			w := world.New(world.Opt{})
			defer w.Close()
			for rep := 1; rep <= 12; rep++ {
				for _, ev := range cy {
					c19Apply(w, ev)
					world.Advance(secs(1))
				}
				if rep%4 == 0 {
					f[rep/4-1] = c19Measure(w)
				}
			}
		})
		fmt.Printf("  | cycle %v, 1 s between exchanges: index entries after 4/8/12 repetitions %d/%d/%d, keys %d/%d/%d\n", cy, f[0].maxIndex, f[1].maxIndex, f[2].maxIndex, f[0].keys, f[1].keys, f[2].keys)
		return (f[1].maxIndex > f[0].maxIndex && f[2].maxIndex > f[1].maxIndex) || (f[1].keys > f[0].keys && f[2].keys > f[1].keys)
	}
	if n := len(path); n > 0 && path[n-1].Method == "DRAIN" {
		path = path[:n-1]
		urlSet := map[string]bool{}
		var urls []string
		for _, ev := range path {
			if !urlSet[ev.URL] {
				urlSet[ev.URL] = true
				urls = append(urls, ev.URL)
			}
		}
		left := c19Drain(t, path, urls)
		before := c19Drain(t, path[:len(path)-1], urls)
		var fresh []string
		for _, k := range left {
			if !slices.Contains(before, k) {
				fresh = append(fresh, k)
			}
		}
		fmt.Printf("  | path %v\n  | then a successful POST to each of %v\n  | keys left in the store: %q (without the last exchange of the path: %q)\n", path, urls, left, before)
		return len(fresh) > 0
	}
	foot, pumped, leak := c19Run(t, path, 3)
	for cl := 2; cl <= 3 && cl <= len(path); cl++ {
		if _, p2, _ := c19RunCycle(t, path, 3, cl); len(p2) == 3 && p2[2].maxIndex > p2[1].maxIndex && p2[1].maxIndex > p2[0].maxIndex && p2[0].maxIndex > foot.maxIndex {
			pumped = p2
			fmt.Printf("  | (cycle of the last %d exchanges)\n", cl)
			break
		}
	}
	fmt.Printf("  | path %v\n  | footprint: %d keys, largest index %d entries, %d bytes\n", path, foot.keys, foot.maxIndex, foot.bytes)
	for i, p := range pumped {
		fmt.Printf("  | after repeating the last exchange %d more time(s): %d keys, largest index %d entries\n", i+1, p.keys, p.maxIndex)
	}
	if leak != "" {
		fmt.Println("  |", leak)
		return true
	}
	if len(pumped) == 3 {
		return pumped[2].maxIndex > pumped[1].maxIndex && pumped[1].maxIndex > pumped[0].maxIndex && pumped[0].maxIndex > foot.maxIndex ||
			pumped[2].keys > pumped[1].keys && pumped[1].keys > pumped[0].keys && pumped[0].keys > foot.keys
	}
	return false
}
