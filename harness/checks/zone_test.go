package checks

import (
	"os"
	"testing"
	"time"
)

// The process runs west of UTC: a time stamp that the code under test formats or interprets in the local zone where
// HTTP demands GMT is then five hours off instead of accidentally right (the default zone of a build machine is UTC).
func TestMain(m *testing.M) {
	time.Local = time.FixedZone("UTC-5", -5*3600)
	os.Exit(m.Run())
}
