package checks

import (
	"encoding/json"
	"fmt"
	"os"
	"strconv"
	"strings"
	"testing"
	"time"

	"verifharness/mc"
)

// Check describes one registered property check.
type Check struct {
	ID         string
	Run        func(x *mc.X)
	Bound      func(tier string) int // deviation bound per tier
	ShardDepth int
	NoBubble   bool
	// LeaksMatter: goroutines left blocked when an execution ends are a violation of this property.
	LeaksMatter bool
	// Custom replaces the generic explorer entirely (BFS / scheduler engines).
	Custom func(t *testing.T, e *mc.Explorer) *mc.ShardResult
	// PreReplay returns choice vectors that must be executed before replaying the given one.
	PreReplay func(choices []int) [][]int
	// ReplayCustom re-executes a violation found by a custom engine (returns true if it still fails).
	ReplayCustom func(t *testing.T, v *mc.Violation) bool
}

var registry = map[string]*Check{}

func register(c *Check) { registry[c.ID] = c }

func envInt(k string, d int) int {
	if v := os.Getenv(k); v != "" {
		if n, err := strconv.Atoi(v); err == nil {
			return n
		}
	}
	return d
}

func explorerFor(c *Check) *mc.Explorer {
	tier := os.Getenv("VERIF_TIER")
	if tier == "" {
		tier = "quick"
	}
	e := &mc.Explorer{
		Property:    c.ID,
		Tier:        tier,
		Shards:      envInt("VERIF_SHARDS", 1),
		Shard:       envInt("VERIF_SHARD", 0),
		ShardDepth:  c.ShardDepth,
		NoBubble:    c.NoBubble,
		LeaksMatter: c.LeaksMatter,
		Run:         c.Run,
	}
	if c.Bound != nil {
		e.Bound = c.Bound(tier)
	}
	if b := envInt("VERIF_BUDGET_S", 0); b > 0 {
		e.Deadline = time.Now().Add(time.Duration(b) * time.Second)
	}
	return e
}

// TestCheck runs the check named by VERIF_CHECK as one shard and writes its result to VERIF_OUT.
func TestCheck(t *testing.T) {
	id := os.Getenv("VERIF_CHECK")
	if id == "" {
		t.Skip("VERIF_CHECK not set")
	}
	c := registry[id]
	if c == nil {
		t.Fatalf("unknown check %q", id)
	}
	e := explorerFor(c)
	var res *mc.ShardResult
	if c.Custom != nil {
		res = c.Custom(t, e)
	} else {
		res = e.Explore(t)
	}
	e.Finalize(res)
	out := os.Getenv("VERIF_OUT")
	if out == "" {
		b, _ := json.MarshalIndent(res, "", " ")
		fmt.Println(string(b))
		return
	}
	if err := mc.WriteResult(out, res); err != nil {
		t.Fatal(err)
	}
}

// TestReplay re-executes one recorded choice vector (VERIF_REPLAY=<file>) five times without the explorer.
func TestReplay(t *testing.T) {
	p := os.Getenv("VERIF_REPLAY")
	if p == "" {
		t.Skip("VERIF_REPLAY not set")
	}
	raw, err := os.ReadFile(p)
	if err != nil {
		t.Fatal(err)
	}
	var v mc.Violation
	if err := json.Unmarshal(raw, &v); err != nil {
		t.Fatal(err)
	}
	c := registry[v.Property]
	if c == nil {
		t.Fatalf("unknown check %q", v.Property)
	}
	if c.ReplayCustom != nil && len(v.Choices) == 0 {
		bad := false
		for i := 0; i < 5; i++ {
			r := c.ReplayCustom(t, &v)
			if i == 0 {
				bad = r
			} else if r != bad {
				fmt.Printf("REPLAY-NONDETERMINISTIC run %d\n", i)
				t.Fail()
			}
		}
		if bad {
			fmt.Printf("REPLAY-VIOLATION property=%s signature=%q\n", v.Property, v.Signature)
			t.Fail()
		} else {
			fmt.Println("REPLAY-OK: no violation on this tree")
		}
		return
	}
	e := explorerFor(c)
	e.Shards = 1
	if c.Bound != nil {
		e.Bound = 1 << 30 // replay follows the recorded picks whatever the bound was
	}
	if c.PreReplay != nil {
		for _, pre := range c.PreReplay(v.Choices) {
			e.ReplayOnce(t, pre)
		}
	}
	var first string
	for i := 0; i < 5; i++ {
		fails, logs, trace, _ := e.ReplayOnce(t, v.Choices)
		var sigs []string
		for _, f := range fails {
			sigs = append(sigs, f.Signature)
		}
		s := strings.Join(sigs, "|")
		if i == 0 {
			first = s
			for _, pt := range trace {
				fmt.Printf("  choice %-28s = %d/%d %s\n", pt.Label, pt.Pick, pt.N, pt.Desc)
			}
			for _, l := range logs {
				fmt.Println("  |", l)
			}
			for _, f := range fails {
				fmt.Printf("REPLAY-VIOLATION property=%s signature=%q\n    %s\n", v.Property, f.Signature, f.Message)
			}
		} else if s != first {
			fmt.Printf("REPLAY-NONDETERMINISTIC run %d: %q vs %q\n", i, s, first)
			t.Fail()
		}
	}
	if first == "" {
		fmt.Println("REPLAY-OK: no violation on this tree")
	} else {
		t.Fail()
	}
}
