#!/usr/bin/env python3
"""overlay.py <workdir>: writes <workdir>/overlay.json.

* every non-test .go file of /repo/store/fscache is copied with ONE textual change: the import of "os"
  becomes an import of the shim under the same name;
* the shim package is mounted as a virtual directory of the module (/repo/zzverif/shimos): hooked.go (hand
  written) and passthrough.go (generated from the toolchain's package os by shimgen).
/repo itself is never written."""
import json, os, re, subprocess, sys
ROOT = os.path.dirname(os.path.dirname(os.path.dirname(os.path.abspath(__file__))))
work = sys.argv[1]
REPO = sys.argv[2] if len(sys.argv) > 2 else "/repo"
os.makedirs(work, exist_ok=True)
shim_src = os.path.join(ROOT, "harness", "shimos", "hooked.go")
gen = os.path.join(work, "passthrough.go")
p = subprocess.run(["go", "run", "./shimgen", shim_src, gen], cwd=os.path.join(ROOT, "harness"), stdout=subprocess.PIPE, stderr=subprocess.STDOUT, text=True)
if p.returncode != 0:
    sys.stdout.write(p.stdout)
    sys.exit(1)
replace = {
    os.path.join(REPO, "zzverif", "shimos", "hooked.go"): shim_src,
    os.path.join(REPO, "zzverif", "shimos", "passthrough.go"): gen,
}
# package sync: rewritten in every non-test source file of the repository that imports it
sync_src = os.path.join(ROOT, "harness", "shimsync", "hooked.go")
sync_gen = os.path.join(work, "sync_passthrough.go")
p = subprocess.run(["go", "run", "./shimgen", sync_src, sync_gen, "sync", "shimsync"], cwd=os.path.join(ROOT, "harness"), stdout=subprocess.PIPE, stderr=subprocess.STDOUT, text=True)
if p.returncode != 0:
    sys.stdout.write(p.stdout)
    sys.exit(1)
replace[os.path.join(REPO, "zzverif", "shimsync", "hooked.go")] = sync_src
replace[os.path.join(REPO, "zzverif", "shimsync", "passthrough.go")] = sync_gen
simp = re.compile(r'^(\s*)(?:sync\s+)?"sync"\s*$', re.M)
nsync = 0
for dirpath, dirnames, filenames in os.walk(REPO):
    dirnames[:] = [d for d in dirnames if d not in (".git", "zzverif", "_examples", "docs", "scripts")]
    for name in sorted(filenames):
        if not name.endswith(".go") or name.endswith("_test.go"):
            continue
        full = os.path.join(dirpath, name)
        if os.path.dirname(full) == os.path.join(REPO, "store", "fscache"):
            continue  # handled below together with the os rewrite
        src = open(full).read()
        new, k = simp.subn(r'\1sync "github.com/bartventer/httpcache/zzverif/shimsync"', src)
        if k:
            out = os.path.join(work, "sync_" + os.path.relpath(full, REPO).replace(os.sep, "_"))
            open(out, "w").write(new)
            replace[full] = out
            nsync += k
fsdir = os.path.join(REPO, "store", "fscache")
imp = re.compile(r'^(\s*)(?:os\s+)?"os"\s*$', re.M)
n = 0
for name in sorted(os.listdir(fsdir)):
    if not name.endswith(".go") or name.endswith("_test.go"):
        continue
    src = open(os.path.join(fsdir, name)).read()
    new, k = imp.subn(r'\1os "github.com/bartventer/httpcache/zzverif/shimos"', src)
    new, k2 = simp.subn(r'\1sync "github.com/bartventer/httpcache/zzverif/shimsync"', new)
    nsync += k2
    k += k2
    if k:
        out = os.path.join(work, "fscache_" + name)
        open(out, "w").write(new)
        replace[os.path.join(fsdir, name)] = out
        n += k
json.dump({"Replace": replace}, open(os.path.join(work, "overlay.json"), "w"), indent=1)
print("overlay: %d import(s) of os/sync rewritten in store/fscache, %d import(s) of sync elsewhere" % (n, nsync))
