// Package sched is a cooperative scheduler built on testing/synctest: every hooked operation registers a
// pending point and blocks; the scheduler waits until all other goroutines of the bubble are durably
// blocked (synctest.Wait), lists the pending points in canonical order (the running thread's family first,
// then by thread name), lets the explorer choose one and releases it. Exactly one thread runs between two
// decisions, so an execution is fully determined by its choice vector. Preemptions (switching away from a
// thread that could continue) are bounded.
package sched

import (
	"fmt"
	"sort"
	"strings"
	"sync"
	"testing/synctest"

	"verifharness/mc"
	"verifharness/world"
)

type pt struct {
	gid    int64
	thread string
	op     string
	ch     chan struct{}
}

// S is one scheduler instance (one execution).
type S struct {
	X     *mc.X
	Bound int // max preemptions; <0 = unbounded

	mu          sync.Mutex
	byGid       map[int64]string
	pending     []*pt
	running     string // family of the thread released last
	childSeq    map[string]int
	clients     map[string]bool // name -> finished
	preemptions int
	steps       int
	Trace       []string
	dying       map[int64]bool
	Deadlock    bool
	Livelock    bool
	MaxSteps    int
}

func New(x *mc.X, bound int) *S {
	return &S{X: x, Bound: bound, byGid: map[int64]string{}, childSeq: map[string]int{}, clients: map[string]bool{}, dying: map[int64]bool{}, MaxSteps: 5000}
}

func family(name string) string {
	if i := strings.IndexByte(name, '/'); i >= 0 {
		return name[:i]
	}
	return name
}

// Go starts a client thread. It runs only when the scheduler releases its start point.
func (s *S) Go(name string, f func()) {
	s.mu.Lock()
	s.clients[name] = false
	s.mu.Unlock()
	go func() {
		s.mu.Lock()
		s.byGid[world.Gid()] = name
		s.mu.Unlock()
		s.Point("start")
		f()
		s.mu.Lock()
		s.clients[name] = true
		s.mu.Unlock()
	}()
}

// Clock is a logical time: the number of scheduling decisions made so far.
func (s *S) Clock() int64 { s.mu.Lock(); defer s.mu.Unlock(); return int64(s.steps) }

// MarkDying makes all later points of the calling goroutine pass through (it is being torn down).
func (s *S) MarkDying() { s.mu.Lock(); s.dying[world.Gid()] = true; s.mu.Unlock() }

// Point is a scheduling point: the caller blocks until the scheduler picks it.
func (s *S) Point(op string) {
	gid := world.Gid()
	s.mu.Lock()
	if s.dying[gid] {
		s.mu.Unlock()
		return
	}
	name, ok := s.byGid[gid]
	if !ok {
		// a goroutine seen for the first time belongs to the thread that ran last
		parent := s.running
		if parent == "" {
			parent = "main"
		}
		s.childSeq[parent]++
		name = fmt.Sprintf("%s/g%d", parent, s.childSeq[parent])
		s.byGid[gid] = name
	}
	p := &pt{gid: gid, thread: name, op: op, ch: make(chan struct{})}
	s.pending = append(s.pending, p)
	s.mu.Unlock()
	<-p.ch
}

// Run schedules until every client thread has finished and nothing is pending.
func (s *S) Run() {
	for {
		synctest.Wait()
		s.mu.Lock()
		if len(s.pending) == 0 {
			all := true
			for _, done := range s.clients {
				all = all && done
			}
			s.Deadlock = !all
			s.mu.Unlock()
			return
		}
		if s.steps >= s.MaxSteps {
			s.Livelock = true
			// release everything so that the bubble can end
			for _, p := range s.pending {
				close(p.ch)
			}
			s.pending = nil
			s.mu.Unlock()
			return
		}
		en := append([]*pt(nil), s.pending...)
		run := s.running
		sort.SliceStable(en, func(i, j int) bool {
			ri, rj := family(en[i].thread) == run, family(en[j].thread) == run
			if ri != rj {
				return ri
			}
			return en[i].thread < en[j].thread
		})
		runningEnabled := family(en[0].thread) == run
		n := len(en)
		if runningEnabled && s.Bound >= 0 && s.preemptions >= s.Bound {
			// only members of the running family may continue
			n = 0
			for _, p := range en {
				if family(p.thread) == run {
					n++
				}
			}
		}
		s.mu.Unlock()
		i := s.X.Choose("sched", n)
		s.mu.Lock()
		chosen := en[i]
		if runningEnabled && family(chosen.thread) != run {
			s.preemptions++
		}
		s.running = family(chosen.thread)
		s.steps++
		for k, p := range s.pending {
			if p == chosen {
				s.pending = append(s.pending[:k], s.pending[k+1:]...)
				break
			}
		}
		if len(s.Trace) < 400 {
			s.Trace = append(s.Trace, chosen.thread+": "+chosen.op)
		}
		s.X.Trace[len(s.X.Trace)-1].Desc = chosen.thread + ": " + chosen.op
		s.mu.Unlock()
		close(chosen.ch)
	}
}

// Steps returns the number of scheduling decisions.
func (s *S) Steps() int { s.mu.Lock(); defer s.mu.Unlock(); return s.steps }
