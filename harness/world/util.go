package world

import (
	"runtime"
	"runtime/debug"
)

func stackTrace() string {
	s := string(debug.Stack())
	if len(s) > 4000 {
		s = s[:4000]
	}
	return s
}

// Gid returns the current goroutine id.
func Gid() int64 {
	var buf [64]byte
	n := runtime.Stack(buf[:], false)
	// "goroutine 123 ["
	var id int64
	for _, c := range buf[len("goroutine "):n] {
		if c < '0' || c > '9' {
			break
		}
		id = id*10 + int64(c-'0')
	}
	return id
}
