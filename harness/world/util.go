package world

import (
	"runtime"
	"runtime/debug"
	"sort"
)

func stackTrace() string {
	s := string(debug.Stack())
	if len(s) > 4000 {
		s = s[:4000]
	}
	return s
}

// Gid returns the current goroutine id.
func Gid() int64 {
	var buf [64]byte
	n := runtime.Stack(buf[:], false)
	// "goroutine 123 ["
	var id int64
	for _, c := range buf[len("goroutine "):n] {
		if c < '0' || c > '9' {
			break
		}
		id = id*10 + int64(c-'0')
	}
	return id
}

// KeysNoLock / PeekNoLock are for use inside a Fault callback (which runs under the store's lock).
func (c *RecConn) KeysNoLock() []string {
	keys := make([]string, 0, len(c.M))
	for k := range c.M {
		keys = append(keys, k)
	}
	sort.Strings(keys)
	return keys
}

func (c *RecConn) PeekNoLock(key string) ([]byte, bool) {
	v, ok := c.M[key]
	return v, ok
}
