package world

import "runtime/debug"

func stackTrace() string {
	s := string(debug.Stack())
	if len(s) > 4000 {
		s = s[:4000]
	}
	return s
}
