// Package world closes the system under test: a scripted origin, a recording /
// fault-injecting store connection, virtual time (the caller runs inside a
// synctest bubble) and an observation record for every exchange.
package world

import (
	"bytes"
	"context"
	"errors"
	"fmt"
	"io"
	"log/slog"
	"net/http"
	"net/url"
	"sort"
	"strconv"
	"strings"
	"sync"
	"sync/atomic"
	"testing/synctest"
	"time"

	"github.com/bartventer/httpcache"
	"github.com/bartventer/httpcache/store"
	"github.com/bartventer/httpcache/store/driver"
)

// ---------------------------------------------------------------- store

// Op is one operation seen at the driver.Conn interface.
type Op struct {
	Seq  int
	Kind string // get | set | del
	Key  string
	Val  []byte // value written (set) or returned (get)
	Err  error
}

func (o Op) String() string {
	e := ""
	if o.Err != nil {
		e = " err=" + o.Err.Error()
	}
	return fmt.Sprintf("%s(%q,%dB)%s", o.Kind, o.Key, len(o.Val), e)
}

// Fault decides the fate of an operation. It is called with the operation
// about to be performed (Val set for "set"; for "get" Val holds the stored
// bytes or nil). Returning handled=true replaces the result by (val, err).
type Fault func(op *Op) (handled bool, val []byte, err error)

// RecConn is an in-memory driver.Conn that records every operation.
type RecConn struct {
	mu    sync.Mutex
	M     map[string][]byte
	Ops   []Op
	Fault Fault
	Hook  func(kind, key string) // called before every op, outside the lock (scheduler point)
}

func NewRecConn() *RecConn { return &RecConn{M: map[string][]byte{}} }

var ErrInjected = errors.New("verif: injected store failure")

func (c *RecConn) Get(key string) ([]byte, error) {
	if c.Hook != nil {
		c.Hook("get", key)
	}
	c.mu.Lock()
	defer c.mu.Unlock()
	op := Op{Seq: len(c.Ops), Kind: "get", Key: key}
	cur, ok := c.M[key]
	if ok {
		op.Val = append([]byte(nil), cur...)
	}
	if c.Fault != nil {
		if h, v, err := c.Fault(&op); h {
			op.Val, op.Err = v, err
			c.Ops = append(c.Ops, op)
			if err != nil {
				return nil, err
			}
			return append([]byte(nil), v...), nil
		}
	}
	if !ok {
		op.Err = driver.ErrNotExist
		c.Ops = append(c.Ops, op)
		return nil, fmt.Errorf("verifmem: %q: %w", key, driver.ErrNotExist)
	}
	c.Ops = append(c.Ops, op)
	return append([]byte(nil), cur...), nil
}

func (c *RecConn) Set(key string, value []byte) error {
	if c.Hook != nil {
		c.Hook("set", key)
	}
	c.mu.Lock()
	defer c.mu.Unlock()
	op := Op{Seq: len(c.Ops), Kind: "set", Key: key, Val: append([]byte(nil), value...)}
	if c.Fault != nil {
		if h, _, err := c.Fault(&op); h {
			op.Err = err
			c.Ops = append(c.Ops, op)
			return err
		}
	}
	// The slice is KEPT, not copied (the Conn contract does not promise a copy, and a simple map-backed store would do
	// just this): a caller that goes on using the buffer it handed over changes what is stored.
	c.M[key] = value
	c.Ops = append(c.Ops, op)
	return nil
}

func (c *RecConn) Delete(key string) error {
	if c.Hook != nil {
		c.Hook("del", key)
	}
	c.mu.Lock()
	defer c.mu.Unlock()
	op := Op{Seq: len(c.Ops), Kind: "del", Key: key}
	if c.Fault != nil {
		if h, _, err := c.Fault(&op); h {
			op.Err = err
			c.Ops = append(c.Ops, op)
			return err
		}
	}
	if _, ok := c.M[key]; !ok {
		op.Err = driver.ErrNotExist
		c.Ops = append(c.Ops, op)
		return fmt.Errorf("verifmem: %q: %w", key, driver.ErrNotExist)
	}
	delete(c.M, key)
	c.Ops = append(c.Ops, op)
	return nil
}

// NOps returns the number of operations logged so far.
func (c *RecConn) NOps() int { c.mu.Lock(); defer c.mu.Unlock(); return len(c.Ops) }

// OpsSince returns a copy of the operations logged from index n on.
func (c *RecConn) OpsSince(n int) []Op {
	c.mu.Lock()
	defer c.mu.Unlock()
	return append([]Op(nil), c.Ops[n:]...)
}

// Snapshot returns a canonical dump of the store contents.
func (c *RecConn) Snapshot() string {
	c.mu.Lock()
	defer c.mu.Unlock()
	keys := make([]string, 0, len(c.M))
	for k := range c.M {
		keys = append(keys, k)
	}
	sort.Strings(keys)
	var sb strings.Builder
	for _, k := range keys {
		sb.WriteString(strconv.Quote(k))
		sb.WriteByte('=')
		sb.WriteString(strconv.Quote(string(c.M[k])))
		sb.WriteByte('\n')
	}
	return sb.String()
}

// Keys returns the sorted keys.
func (c *RecConn) Keys() []string {
	c.mu.Lock()
	defer c.mu.Unlock()
	keys := make([]string, 0, len(c.M))
	for k := range c.M {
		keys = append(keys, k)
	}
	sort.Strings(keys)
	return keys
}

// Peek returns the stored bytes without logging.
func (c *RecConn) Peek(key string) ([]byte, bool) {
	c.mu.Lock()
	defer c.mu.Unlock()
	v, ok := c.M[key]
	return append([]byte(nil), v...), ok
}

// Poke sets stored bytes without logging.
func (c *RecConn) Poke(key string, v []byte) {
	c.mu.Lock()
	defer c.mu.Unlock()
	c.M[key] = append([]byte(nil), v...)
}

var (
	connReg sync.Map // id -> driver.Conn
	connSeq atomic.Int64
)

func init() {
	store.Register("verifmem", driver.DriverFunc(func(u *url.URL) (driver.Conn, error) {
		id := u.Query().Get("id")
		if c, ok := connReg.Load(id); ok {
			return c.(driver.Conn), nil
		}
		return nil, fmt.Errorf("verifmem: unknown id %q", id)
	}))
}

// RegisterConn makes c reachable through a DSN and returns the DSN and a release func.
func RegisterConn(c driver.Conn) (dsn string, release func()) {
	id := strconv.FormatInt(connSeq.Add(1), 10)
	connReg.Store(id, c)
	return "verifmem://?id=" + id, func() { connReg.Delete(id) }
}

// ---------------------------------------------------------------- origin

// Call is one request received by the scripted origin.
type Call struct {
	Seq      int
	Method   string
	URL      string
	Header   http.Header
	At       time.Time
	CtxErr   error // request context state when the call arrived
	Req      *http.Request
	DoneAt   time.Time
	RespTok  string
	RespCode int
	Err      error
	Gid      int64 // goroutine that made the call (foreground calls run on the caller's goroutine)
}

func (c *Call) String() string {
	return fmt.Sprintf("%s %s inm=%q ims=%q -> %d %s err=%v", c.Method, c.URL, c.Header.Get("If-None-Match"), c.Header.Get("If-Modified-Since"), c.RespCode, c.RespTok, c.Err)
}

// Handler produces the origin's answer to one call.
type Handler func(o *Origin, call *Call) (*http.Response, error)

// Origin is the scripted upstream http.RoundTripper.
type Origin struct {
	mu      sync.Mutex
	Calls   []*Call
	Handler Handler
	Hook    func(call *Call) // scheduler point before answering
	// Decorate makes the origin behave like an upstream RoundTripper that sends a modified COPY of the request (an
	// authorising transport): the copy carries an Authorization field that changes from call to call, and the
	// response's Request field points to the copy, as net/http's own transports do.
	Decorate bool
	tokSeq   int
	Toks     map[string]*Tok
}

// Tok is the ghost record of one response minted by the origin.
type Tok struct {
	Name     string
	URL      string
	ReqHdr   http.Header
	Status   int
	Header   http.Header // as sent by the origin
	ReqTime  time.Time   // when the origin call started
	RespTime time.Time   // when it returned
	Body     []byte
}

func NewOrigin() *Origin { return &Origin{Toks: map[string]*Tok{}} }

func (o *Origin) RoundTrip(req *http.Request) (*http.Response, error) {
	if o.Decorate {
		req2 := req.Clone(req.Context())
		o.mu.Lock()
		req2.Header.Set("Authorization", fmt.Sprintf("Bearer token-%d", len(o.Calls)))
		o.mu.Unlock()
		req = req2
	}
	o.mu.Lock()
	call := &Call{Seq: len(o.Calls), Method: req.Method, URL: req.URL.String(), Header: req.Header.Clone(), At: time.Now(), CtxErr: req.Context().Err(), Req: req, Gid: Gid()}
	o.Calls = append(o.Calls, call)
	h := o.Handler
	o.mu.Unlock()
	if o.Hook != nil {
		o.Hook(call)
	}
	if h == nil {
		h = func(o *Origin, c *Call) (*http.Response, error) {
			return o.Respond(c, RespSpec{Status: 200, H: H("Cache-Control", "no-store")}), nil
		}
	}
	resp, err := h(o, call)
	o.mu.Lock()
	call.DoneAt = time.Now()
	call.Err = err
	if resp != nil {
		call.RespCode = resp.StatusCode
		call.RespTok = resp.Header.Get("X-Tok")
	}
	o.mu.Unlock()
	return resp, err
}

// NCalls returns the number of calls so far.
func (o *Origin) NCalls() int { o.mu.Lock(); defer o.mu.Unlock(); return len(o.Calls) }

// CallsSince returns calls from index n.
func (o *Origin) CallsSince(n int) []*Call {
	o.mu.Lock()
	defer o.mu.Unlock()
	return append([]*Call(nil), o.Calls[n:]...)
}

// H builds an ordered header field list from name, value pairs.
func H(kv ...string) [][2]string {
	var out [][2]string
	for i := 0; i+1 < len(kv); i += 2 {
		out = append(out, [2]string{kv[i], kv[i+1]})
	}
	return out
}

// RespSpec describes an origin response.
type RespSpec struct {
	Status    int
	H         [][2]string   // header fields; "Date" handled via DateOff/NoDate unless given here
	Body      []byte        // nil → token body
	NoTok     bool          // do not mint a token (e.g. 304)
	FailOnce  bool          // BodyErr is returned by ONE Read at FailAt; later Reads deliver the rest
	Delay     time.Duration // virtual latency before the response is returned
	DateOff   time.Duration // Date = now(after delay) + DateOff
	NoDate    bool
	RawDate   string // if set, sent verbatim
	Proto     string // default HTTP/1.1
	FailAt    int    // with BodyErr: body fails after FailAt bytes
	BodyErr   error
	UnknownCL bool // ContentLength -1
	Pad       int  // pad token body to this length
}

// Sleep sleeps d in virtual time honouring ctx.
func Sleep(req *http.Request, d time.Duration) error {
	if d <= 0 {
		return nil
	}
	tm := time.NewTimer(d)
	defer tm.Stop()
	select {
	case <-tm.C:
		return nil
	case <-req.Context().Done():
		return req.Context().Err()
	}
}

// Respond builds the response for call from spec, mints a token and records its ghost entry.
func (o *Origin) Respond(call *Call, s RespSpec) *http.Response {
	if s.Delay > 0 && call.Req != nil {
		_ = Sleep(call.Req, s.Delay) // virtual latency (cut short when the request's context ends)
	}
	hdr := http.Header{}
	for _, kv := range s.H {
		k := kv[0]
		hdr[http.CanonicalHeaderKey(k)] = append(hdr[http.CanonicalHeaderKey(k)], kv[1])
	}
	now := time.Now()
	if _, ok := hdr["Date"]; !ok && !s.NoDate {
		if s.RawDate != "" {
			hdr.Set("Date", s.RawDate)
		} else {
			hdr.Set("Date", now.Add(s.DateOff).UTC().Format(http.TimeFormat))
		}
	}
	body := s.Body
	tokName := ""
	if !s.NoTok {
		o.mu.Lock()
		o.tokSeq++
		tokName = fmt.Sprintf("tok%d", o.tokSeq)
		o.mu.Unlock()
		if body == nil {
			body = []byte(tokName + "|" + call.URL)
			for len(body) < s.Pad {
				body = append(body, '.')
			}
		}
		hdr.Set("X-Tok", tokName)
	}
	proto := s.Proto
	if proto == "" {
		proto = "HTTP/1.1"
	}
	maj, min := 1, 1
	if proto == "HTTP/1.0" {
		min = 0
	} else if proto == "HTTP/2.0" {
		maj, min = 2, 0
	}
	resp := &http.Response{
		Status:        fmt.Sprintf("%d %s", s.Status, http.StatusText(s.Status)),
		StatusCode:    s.Status,
		Proto:         proto,
		ProtoMajor:    maj,
		ProtoMinor:    min,
		Header:        hdr,
		ContentLength: int64(len(body)),
		Request:       call.Req,
	}
	if s.UnknownCL {
		resp.ContentLength = -1
	}
	if s.BodyErr != nil {
		resp.Body = &failingBody{data: body, failAt: s.FailAt, err: s.BodyErr, once: s.FailOnce}
	} else {
		resp.Body = io.NopCloser(bytes.NewReader(body))
	}
	if call.Req != nil {
		// like the bodies of net/http's own transports: reading fails once the request's context has ended, and
		// a closed body cannot be read any more
		resp.Body = &ctxBody{ctx: call.Req.Context(), rc: resp.Body}
	}
	if tokName != "" {
		o.mu.Lock()
		o.Toks[tokName] = &Tok{Name: tokName, URL: call.URL, ReqHdr: call.Header.Clone(), Status: s.Status, Header: hdr.Clone(), ReqTime: call.At, RespTime: now, Body: body}
		o.mu.Unlock()
	}
	return resp
}

// ctxBody ties a response body to the context of the request that produced it.
type ctxBody struct {
	ctx    context.Context
	rc     io.ReadCloser
	closed bool
}

func (b *ctxBody) Read(p []byte) (int, error) {
	if b.closed {
		return 0, errors.New("http: read on closed response body")
	}
	if err := b.ctx.Err(); err != nil {
		return 0, err
	}
	return b.rc.Read(p)
}

func (b *ctxBody) Close() error { b.closed = true; return b.rc.Close() }

type failingBody struct {
	data   []byte
	off    int
	failAt int
	err    error
	once   bool
	failed bool
}

func (b *failingBody) Read(p []byte) (int, error) {
	if b.once && b.failed {
		if b.off >= len(b.data) {
			return 0, io.EOF
		}
		n := copy(p, b.data[b.off:])
		b.off += n
		return n, nil
	}
	if b.off >= b.failAt {
		b.failed = true
		return 0, b.err // sticky (like net/http bodies) unless once is set
	}
	n := copy(p, b.data[b.off:b.failAt])
	b.off += n
	return n, nil
}
func (b *failingBody) Close() error { return nil }

// ---------------------------------------------------------------- world

// W is one closed system: transport under test + origin + store.
type W struct {
	RT     http.RoundTripper
	Origin *Origin
	Conn   *RecConn
	Epoch  time.Time
	rel    func()
	LogBuf *bytes.Buffer
	NoWait bool // do not wait for quiescence at the end of Do (outside a bubble)
	// Alternate routes every second exchange of Do through a second transport that shares the store and the
	// origin (two processes or clients over one cache directory): whatever a transport remembers outside the
	// store is then out of date for half of the exchanges.
	Alternate bool
	rt2       http.RoundTripper
	rel2      func()
	nDo       int
	opt       Opt
}

// Opt configures New.
type Opt struct {
	SWRTimeout *time.Duration
	Logger     string // "", "text", "json"
	Conn       driver.Conn
	DSN        string // if set, used instead of a RecConn
}

// New builds a fresh transport over a fresh recording store.
func New(o Opt) *W { return NewWithOrigin(o, NewOrigin()) }

// NewWithOrigin is New with an existing scripted origin (e.g. a second transport over the same store).
func NewWithOrigin(o Opt, origin *Origin) *W {
	w := &W{Origin: origin, Epoch: time.Now(), opt: o}
	dsn := o.DSN
	if dsn == "" {
		if o.Conn != nil {
			dsn, w.rel = RegisterConn(o.Conn)
		} else {
			w.Conn = NewRecConn()
			dsn, w.rel = RegisterConn(w.Conn)
		}
	}
	opts := []httpcache.Option{httpcache.WithUpstream(w.Origin)}
	if o.SWRTimeout != nil {
		opts = append(opts, httpcache.WithSWRTimeout(*o.SWRTimeout))
	}
	switch o.Logger {
	case "text":
		w.LogBuf = &bytes.Buffer{}
		opts = append(opts, httpcache.WithLogger(slog.New(slog.NewTextHandler(&lockedWriter{w: w.LogBuf}, &slog.HandlerOptions{Level: slog.LevelDebug}))))
	case "text-info", "text-error": // handlers enabled at a higher level only
		w.LogBuf = &bytes.Buffer{}
		lvl := slog.LevelInfo
		if o.Logger == "text-error" {
			lvl = slog.LevelError
		}
		opts = append(opts, httpcache.WithLogger(slog.New(slog.NewTextHandler(&lockedWriter{w: w.LogBuf}, &slog.HandlerOptions{Level: lvl}))))
	case "json":
		w.LogBuf = &bytes.Buffer{}
		opts = append(opts, httpcache.WithLogger(slog.New(slog.NewJSONHandler(&lockedWriter{w: w.LogBuf}, &slog.HandlerOptions{Level: slog.LevelDebug, AddSource: true}))))
	}
	w.RT = httpcache.NewTransport(dsn, opts...)
	return w
}

type lockedWriter struct {
	mu sync.Mutex
	w  io.Writer
}

func (l *lockedWriter) Write(p []byte) (int, error) {
	l.mu.Lock()
	defer l.mu.Unlock()
	return l.w.Write(p)
}

// Close releases the DSN registration.
func (w *W) Close() {
	if w.rel != nil {
		w.rel()
	}
	if w.rel2 != nil {
		w.rel2()
	}
}

// second returns the second transport over the same store and origin.
func (w *W) second() http.RoundTripper {
	if w.rt2 == nil {
		o := w.opt
		o.Logger = ""
		if o.DSN == "" && o.Conn == nil {
			o.Conn = w.Conn
		}
		w2 := NewWithOrigin(o, w.Origin)
		w.rt2, w.rel2 = w2.RT, w2.rel
	}
	return w.rt2
}

// Obs is what the client observed for one exchange.
type Obs struct {
	Err         error
	Panic       any
	PanicStack  string
	Resp        *http.Response
	Status      int
	Header      http.Header
	Body        []byte
	BodyErr     error
	Trailer     http.Header // trailer fields as available after the body was read
	CacheStatus string
	Tok         string // token parsed from the body ("" if none)
	HdrTok      string
	Calls       []*Call // origin calls made on the caller's goroutine (foreground)
	BgCalls     []*Call // origin calls made by other goroutines, up to quiescence after the call
	Ops         []Op    // store ops of the exchange up to quiescence (foreground first)
	FgOps       int     // how many of Ops happened before RoundTrip returned
	Dur         time.Duration
	ReqChanged  string // non-empty if the caller's request was modified
	At          time.Time
}

// FromStore reports whether the body token was minted before this exchange started contacting the origin.
func (o *Obs) Contacted() bool { return len(o.Calls) > 0 }

func (o *Obs) String() string {
	if o.Panic != nil {
		return fmt.Sprintf("PANIC %v", o.Panic)
	}
	if o.Err != nil {
		return fmt.Sprintf("ERR %v calls=%d", o.Err, len(o.Calls))
	}
	return fmt.Sprintf("%d %s tok=%s age=%q calls=%d bg=%d", o.Status, o.CacheStatus, o.Tok, o.Header.Get("Age"), len(o.Calls), len(o.BgCalls))
}

// Req builds a request. hdr is name, value pairs.
func Req(method, rawurl string, hdr ...string) *http.Request {
	r, err := http.NewRequest(method, rawurl, nil)
	if err != nil {
		panic(err)
	}
	for i := 0; i+1 < len(hdr); i += 2 {
		r.Header.Add(hdr[i], hdr[i+1])
	}
	return r
}

func reqFingerprint(r *http.Request) string {
	var sb strings.Builder
	sb.WriteString(r.Method)
	sb.WriteByte(' ')
	sb.WriteString(r.URL.String())
	sb.WriteByte(' ')
	sb.WriteString(r.Host)
	keys := make([]string, 0, len(r.Header))
	for k := range r.Header {
		keys = append(keys, k)
	}
	sort.Strings(keys)
	for _, k := range keys {
		sb.WriteString("\n" + k + ": " + strings.Join(r.Header[k], "\x00"))
	}
	return sb.String()
}

// Do performs one exchange through the transport and reads the body.
func (w *W) Do(req *http.Request) *Obs {
	o := &Obs{At: time.Now()}
	before := reqFingerprint(req)
	hdrBefore := req.Header
	n0 := w.Origin.NCalls()
	c0 := 0
	if w.Conn != nil {
		c0 = w.Conn.NOps()
	}
	func() {
		defer func() {
			if r := recover(); r != nil {
				o.Panic = r
				o.PanicStack = stackTrace()
			}
		}()
		rt := w.RT
		if w.Alternate && w.nDo%2 == 1 {
			rt = w.second()
		}
		w.nDo++
		o.Resp, o.Err = rt.RoundTrip(req)
	}()
	o.Dur = time.Since(o.At)
	if w.Conn != nil {
		o.FgOps = len(w.Conn.OpsSince(c0))
	}
	if after := reqFingerprint(req); after != before {
		o.ReqChanged = fmt.Sprintf("before=%q after=%q", before, after)
	}
	_ = hdrBefore
	if o.Resp != nil {
		o.Status = o.Resp.StatusCode
		o.Header = o.Resp.Header.Clone()
		o.CacheStatus = o.Resp.Header.Get("X-Httpcache-Status")
		o.HdrTok = o.Resp.Header.Get("X-Tok")
		if o.Resp.Body != nil {
			func() {
				defer func() {
					if r := recover(); r != nil {
						o.Panic = r
						o.PanicStack = stackTrace()
					}
				}()
				o.Body, o.BodyErr = io.ReadAll(o.Resp.Body)
				_ = o.Resp.Body.Close()
				o.Trailer = o.Resp.Trailer.Clone()
			}()
		}
		if i := bytes.IndexByte(o.Body, '|'); i > 0 && bytes.HasPrefix(o.Body, []byte("tok")) {
			o.Tok = string(o.Body[:i])
		}
	}
	if !w.NoWait {
		synctest.Wait()
	}
	if w.Conn != nil {
		o.Ops = w.Conn.OpsSince(c0) // includes background work up to quiescence; the first FgOps are the foreground's
	}
	me := Gid()
	for _, c := range w.Origin.CallsSince(n0) {
		if c.Gid == me {
			o.Calls = append(o.Calls, c)
		} else {
			o.BgCalls = append(o.BgCalls, c)
		}
	}
	return o
}

// Quiesce waits until every other goroutine of the bubble is durably blocked.
func Quiesce() { synctest.Wait() }

// Advance moves virtual time forward by d and lets background work settle.
func Advance(d time.Duration) {
	if d > 0 {
		time.Sleep(d)
	}
	synctest.Wait()
}
