#!/usr/bin/env python3
"""seedeval.py <seed-dir> <name> <property> [check ids...] [--tier quick|thorough]
Confirms a seeded defect (patch.diff + demo_test.go + README.md) in a scratch worktree and runs the registered
checks against /repo with the patch applied (reverted straight afterwards). Records the result under /verif/seeded/<name>/."""
import json, os, re, shutil, subprocess, sys, time
ROOT = "/verif"
SNAP = os.environ.get("VERIF_SNAP", ROOT)  # a frozen copy of /verif to run the checks from (so the harness can be edited meanwhile)
TC = "/root/go/pkg/mod/golang.org/toolchain@v0.0.1-go1.25.0.linux-amd64"
env = dict(os.environ, GOTOOLCHAIN="local", GOFLAGS="-mod=mod", GOPROXY="off", GOSUMDB="off", GOROOT=TC, PATH=TC + "/bin:" + os.environ["PATH"])

def sh(cmd, cwd=None, timeout=3600):
    p = subprocess.run(cmd, cwd=cwd, env=env, shell=isinstance(cmd, str), stdout=subprocess.PIPE, stderr=subprocess.STDOUT, text=True, timeout=timeout)
    return p.returncode, p.stdout

def main():
    a = [x for x in sys.argv[1:] if x != "--in-repo"]
    tier = "quick"
    if "--tier" in a:
        i = a.index("--tier"); tier = a[i + 1]; del a[i:i + 2]
    src, name, prop = a[0], a[1], a[2]
    checks = a[3:] or [prop]
    patch = os.path.join(src, "patch.diff")
    demo = os.path.join(src, "demo_test.go")
    out = os.path.join(ROOT, "seeded", name)
    os.makedirs(out, exist_ok=True)
    for f in ("patch.diff", "demo_test.go", "README.md"):
        if os.path.exists(os.path.join(src, f)) and os.path.abspath(src) != os.path.abspath(out):
            shutil.copy(os.path.join(src, f), os.path.join(out, f))
    meta = {"property": prop, "name": name, "ran": [], "repo_head": sh("git -C /repo log --format=%h -1")[1].strip()}
    # ---- 1. confirmation in a scratch worktree
    wt = "/tmp/seedeval-wt-%d" % os.getpid()
    sh(["git", "-C", "/repo", "worktree", "add", "-q", "--detach", wt, "HEAD"])
    try:
        rc, o = sh(["git", "apply", "--check", patch], cwd=wt)
        if rc != 0:
            # written against an earlier HEAD: try a fuzzy application and keep the result as the patch to use
            rc2, o2 = sh("patch -p1 -F3 -s --no-backup-if-mismatch < %s && ! find . -name '*.rej' | grep -q . && git diff > %s.rebased && git checkout -q -- ." % (patch, patch), cwd=wt)
            if rc2 == 0 and os.path.getsize(patch + ".rebased") > 0:
                patch = patch + ".rebased"
                shutil.copy(patch, os.path.join(out, "patch.diff"))
                meta["rebased_with_fuzz"] = True
                rc = 0
            else:
                sh("git checkout -q -- . && git clean -fdq", cwd=wt)
        meta["patch_applies"] = rc == 0
        if rc != 0:
            meta["apply_error"] = o[-500:]
            print("PATCH DOES NOT APPLY:", o[-300:])
        else:
            first = open(demo).read().splitlines()[:6] if os.path.exists(demo) else []
            pkgdir = "."
            for l in first:
                m = re.search(r"copy to:\s*(\S+)", l)
                if m:
                    pkgdir = m.group(1).replace("<module root>", ".").rstrip("/")
            pkgdir = pkgdir.replace(wt, ".")
            if pkgdir.startswith("/"):
                pkgdir = re.sub(r"^/tmp/seed/[^/]+/?", "./", pkgdir)
            if not os.path.isdir(os.path.join(wt, pkgdir)):
                pkgdir = "."
            dst = os.path.join(wt, pkgdir, "zz_seed_demo_test.go")
            if os.path.exists(demo):
                shutil.copy(demo, dst)
                rc0, o0 = sh(["go", "test", "-vet=off", "-count=1", "-run", "C[0-9][0-9]", "./" + pkgdir], cwd=wt)
                meta["demo_passes_without_patch"] = rc0 == 0
            sh(["git", "apply", patch], cwd=wt)
            rcb, ob = sh(["go", "build", "./..."], cwd=wt)
            meta["builds_with_patch"] = rcb == 0
            if os.path.exists(demo):
                rc1, o1 = sh(["go", "test", "-vet=off", "-count=1", "-run", "C[0-9][0-9]", "./" + pkgdir], cwd=wt)
                meta["demo_fails_with_patch"] = rc1 != 0
                meta["demo_output_tail"] = o1[-600:]
                os.remove(dst)
            rcs, os_ = sh([os.path.join(ROOT, "baseline_check.py"), wt])
            meta["suite_unchanged_with_patch"] = rcs == 0
            meta["suite_summary"] = os_.strip().splitlines()[0] if os_.strip() else ""
    finally:
        sh(["git", "-C", "/repo", "worktree", "remove", "--force", wt])
    # ---- 2. run the checks with the patch applied. Default: on a scratch worktree (VERIF_REPO), so that /repo
    # and /verif/evidence are never touched and several evaluations can run side by side; --in-repo applies the
    # patch to /repo itself (git apply ... git checkout -- .), exactly as the registered commands see it.
    in_repo = "--in-repo" in sys.argv
    if meta.get("patch_applies"):
        envx = dict(env)
        wt2 = "/tmp/seedeval-run-%d" % os.getpid()
        if in_repo:
            rc, o = sh(["git", "-C", "/repo", "status", "--porcelain"])
            if o.strip():
                print("refusing: /repo is not clean"); return 2
            sh(["git", "-C", "/repo", "apply", patch])
        else:
            sh(["git", "-C", "/repo", "worktree", "add", "-q", "--detach", wt2, "HEAD"])
            sh(["git", "apply", patch], cwd=wt2)
            envx["VERIF_REPO"] = wt2
            envx["VERIF_OUT_DIR"] = wt2 + ".out"
        try:
            for cid in checks:
                t0 = time.time()
                pr = subprocess.run([os.path.join(SNAP, "vcheck"), "run", cid, tier], cwd=SNAP, env=envx, stdout=subprocess.PIPE, stderr=subprocess.STDOUT, text=True)
                rc, o = pr.returncode, pr.stdout
                viol = [l for l in o.splitlines() if l.startswith("VIOLATION")]
                sigs = [l.strip() for l in o.splitlines() if l.strip().startswith("signature:")]
                meta["ran"].append({"check": cid, "tier": tier, "exit": rc, "violations": len(viol), "signatures": sigs[:6], "wall_s": round(time.time() - t0, 1), "summary": o.splitlines()[0] if o else ""})
                print("  %s %s: exit=%d violations=%d %s" % (cid, tier, rc, len(viol), sigs[:2]))
        finally:
            if in_repo:
                sh(["git", "-C", "/repo", "checkout", "--", "."])
                sh(["git", "-C", "/repo", "clean", "-fdq"])
            else:
                sh(["git", "-C", "/repo", "worktree", "remove", "--force", wt2])
                shutil.rmtree(wt2 + ".out", ignore_errors=True)
            # restore evidence of the unchanged tree is the caller's business (re-run the checks)
    meta["detected_by"] = [r["check"] for r in meta["ran"] if r["exit"] == 1]
    json.dump(meta, open(os.path.join(out, "meta.json"), "w"), indent=1)
    print(json.dumps({k: meta[k] for k in meta if k not in ("ran", "demo_output_tail")}))

if __name__ == "__main__":
    sys.exit(main())
