#!/bin/sh
# negeval.sh <patch> <name> [checks...]: applies a (supposedly property-preserving) patch to a scratch worktree of
# /repo and runs the quick checks against it; every VIOLATION is a false alarm to be investigated. /repo is untouched.
set -u
patch=$1; name=$2; shift 2
wt=/tmp/negeval-$name
git -C /repo worktree remove --force $wt 2>/dev/null
git -C /repo worktree add -q --detach $wt HEAD || exit 2
if ! git -C $wt apply "$patch" 2>/dev/null && ! (cd $wt && git checkout -q -- . && patch -p1 -F3 -s --no-backup-if-mismatch < "$patch" >/dev/null 2>&1 && ! find . -name "*.rej" | grep -q .); then echo "PATCH DOES NOT APPLY"; git -C /repo worktree remove --force $wt; exit 2; fi
checks=${*:-$(python3 -c "import json;print(' '.join(sorted(json.load(open('/verif/checks.json')))))")}
for c in $checks; do
  out=$(VERIF_REPO=$wt VERIF_OUT_DIR=/tmp/negeval-$name.out /verif/vcheck run $c quick 2>&1); rc=$?
  echo "$name $c rc=$rc $(echo "$out" | head -1 | cut -c1-120)"
  echo "$out" | grep -A2 -E "^(VIOLATION|HARNESS-ERROR)" | head -9 | cut -c1-400
done
git -C /repo worktree remove --force $wt
rm -rf /tmp/negeval-$name.out
