#!/bin/sh
# setup_cmd: warms the Go build cache (plain and -race builds of the harness against /repo).
set -e
cd "$(dirname "$0")"
exec ./vcheck build
