#!/usr/bin/env python3
"""Runs /repo's own test suite (guard off — there are no source hooks) and compares with BASELINE.json's stable_pass list."""
import json, os, subprocess, sys
TC = "/root/go/pkg/mod/golang.org/toolchain@v0.0.1-go1.25.0.linux-amd64"
repo = sys.argv[1] if len(sys.argv) > 1 else "/repo"
env = dict(os.environ, GOTOOLCHAIN="local", GOFLAGS="-mod=mod", GOPROXY="off", GOSUMDB="off")
if os.path.exists(TC + "/bin/go"):
    env["PATH"] = TC + "/bin:" + env["PATH"]; env["GOROOT"] = TC
p = subprocess.run(["go", "test", "-json", "-vet=off", "-count=1", "-timeout", "25m", "./..."], cwd=repo, env=env, stdout=subprocess.PIPE, stderr=subprocess.STDOUT, text=True)
status = {}
for line in p.stdout.splitlines():
    try:
        e = json.loads(line)
    except Exception:
        continue
    if e.get("Test") and e.get("Action") in ("pass", "fail", "skip"):
        status["%s::%s" % (e["Package"], e["Test"])] = e["Action"]
base = json.load(open("/root/.vp/BASELINE.json"))["stable_pass"]
bad = [t for t in base if status.get(t) != "pass"]
print("baseline stable_pass=%d now_passing=%d regressions=%d" % (len(base), sum(1 for t in base if status.get(t) == "pass"), len(bad)))
for t in bad[:40]:
    print("  REGRESSION", t, status.get(t))
sys.exit(1 if bad else 0)
