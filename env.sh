# sourced by vcheck / setup.sh: offline Go environment using the go1.25.0 toolchain from the module cache
export GOTOOLCHAIN=local
export GOFLAGS=-mod=mod
export GOPROXY=off
export GOSUMDB=off
TC=/root/go/pkg/mod/golang.org/toolchain@v0.0.1-go1.25.0.linux-amd64
if [ -x "$TC/bin/go" ]; then export PATH="$TC/bin:$PATH"; export GOROOT="$TC"; fi
